//! C25 — sync targets report success exactly when reached (announcer).
//! Compiled inside the shim crate around the shadow copies of `node/sync.rs` and
//! `node/sync/announce.rs`; node ids are 1-byte ids over the universe {0,1,2,3}, sets are bit
//! masks (`vcoll`), so every membership below is a symbolic bit.
#![allow(dead_code, unused_imports)]
use crate::node::sync::announce::{Announcer, AnnouncerConfig, AnnouncerError, AnnouncerResult};
use crate::node::sync::ReplicationFactor;
use crate::vcoll::{BTreeSet, Id};
use std::ops::ControlFlow;
use std::time::Duration;

fn bit(n: Id) -> u8 {
    1 << n.0
}

/// Reference model of the target over bit masks of *distinct* nodes:
/// reached <=> every preferred seed is synced and the number of distinct synced nodes has
/// reached the replication bound (the upper bound of a range, else the lower bound).
struct Model {
    local: u8,
    preferred: u8,
    synced: u8,
    to_sync: u8,
    lower: usize,
    upper: Option<usize>,
}

impl Model {
    fn reached(&self) -> bool {
        let pref_ok = self.preferred & !self.synced == 0;
        let n = self.synced.count_ones() as usize;
        pref_ok && n >= self.upper.unwrap_or(self.lower)
    }
}

fn any_replicas() -> ReplicationFactor {
    let lo: usize = kani::any();
    let hi: usize = kani::any();
    kani::assume(lo <= 4 && hi <= 5);
    if kani::any() {
        ReplicationFactor::must_reach(lo)
    } else {
        ReplicationFactor::range(lo, hi)
    }
}

/// Build an announcer from fully symbolic sets; returns it with its reference model.
fn any_announcer() -> Option<(Announcer, Model)> {
    let local: Id = kani::any();
    let (p, s, u): (u8, u8, u8) = (kani::any(), kani::any(), kani::any());
    kani::assume(p < 16 && s < 16 && u < 16);
    let replicas = any_replicas();
    let cfg = AnnouncerConfig::public(local, replicas, BTreeSet::from_bits(p), BTreeSet::from_bits(s), BTreeSet::from_bits(u));
    let l = bit(local);
    let (p, s, u) = (p & !l, s & !l, u & !l);
    match Announcer::new(cfg) {
        Ok(a) => {
            let to_sync = u | (p & !s);
            let r = replicas.min(to_sync.count_ones() as usize);
            let m = Model { local: l, preferred: p, synced: s, to_sync, lower: r.lower_bound(), upper: r.upper_bound() };
            // an announcer is only handed out when its target is not already met
            assert!(!m.reached(), "C25: announcer constructed although its target is already reached");
            assert!(a.to_sync().bits == m.to_sync, "C25: to_sync() differs from unsynced + missing preferred seeds, without the local node");
            Some((a, m))
        }
        Err(e) => {
            std::mem::forget(e);
            None
        }
    }
}

fn check_progress(a: &Announcer, m: &Model) {
    let p = a.progress();
    assert!(p.synced() == m.synced.count_ones() as usize, "C25: progress counts something other than the distinct synced nodes");
    assert!(p.preferred() == (m.synced & m.preferred).count_ones() as usize, "C25: progress counts preferred seeds wrongly");
    assert!(a.to_sync().bits & m.local == 0, "C25: the local node is handed out for syncing");
}

/// `K` sync results for arbitrary nodes (local node, unknown nodes and repeats included): success
/// is reported exactly when the reference target is reached, the local node is never counted or
/// handed out, and timing out reports success exactly when the target is reached.
fn announcer_events<const K: usize>() {
    let Some((mut a, mut m)) = any_announcer() else { return };
    check_progress(&a, &m);
    let mut i = 0;
    while i < K {
        let n: Id = kani::any();
        let r = a.synced_with(n, Duration::from_secs(1));
        if bit(n) != m.local {
            m.synced |= bit(n);
            m.to_sync &= !bit(n);
        }
        match r {
            ControlFlow::Break(s) => {
                assert!(m.reached(), "C25: announcer reports success although the target is not reached");
                assert!(bit(n) != m.local, "C25: a result for the local node completed the target");
                std::mem::forget(s);
                kani::cover!(i + 1 == K);
                return;
            }
            ControlFlow::Continue(p) => {
                assert!(!m.reached(), "C25: target reached but the announcer does not report success");
                assert!(p.synced() == m.synced.count_ones() as usize, "C25: progress counts something other than the distinct synced nodes");
            }
        }
        check_progress(&a, &m);
        i += 1;
    }
    match a.timed_out() {
        AnnouncerResult::Success(s) => {
            std::mem::forget(s);
            panic!("C25: timed_out reports success although the target is not reached")
        }
        AnnouncerResult::TimedOut(t) => {
            assert!(!m.reached());
            assert!(t.timed_out().bits == m.to_sync, "C25: timed-out set differs from the nodes still to sync");
            std::mem::forget(t);
        }
        AnnouncerResult::NoNodes(x) => {
            std::mem::forget(x);
            panic!("C25: timed_out returned NoNodes")
        }
    }
    kani::cover!(true);
}

#[kani::proof]
#[kani::unwind(6)]
fn c25_announcer_new_and_one_event() {
    announcer_events::<1>()
}

#[kani::proof]
#[kani::unwind(6)]
fn c25_announcer_two_events() {
    announcer_events::<2>()
}

#[kani::proof]
#[kani::unwind(6)]
fn c25_announcer_three_events() {
    announcer_events::<3>()
}

/// Construction errors are exactly the documented ones.
#[kani::proof]
#[kani::unwind(6)]
fn c25_announcer_new_errors() {
    let local: Id = kani::any();
    let (p, s, u): (u8, u8, u8) = (kani::any(), kani::any(), kani::any());
    kani::assume(p < 16 && s < 16 && u < 16);
    let replicas = any_replicas();
    let cfg = AnnouncerConfig::public(local, replicas, BTreeSet::from_bits(p), BTreeSet::from_bits(s), BTreeSet::from_bits(u));
    let l = bit(local);
    let (p, s, u) = (p & !l, s & !l, u & !l);
    match Announcer::new(cfg) {
        Ok(a) => {
            assert!(u != 0, "C25: announcer constructed with nothing to sync");
            std::mem::forget(a);
        }
        Err(AnnouncerError::NoSeeds) => assert!(s == 0 && u == 0, "C25: NoSeeds although seeds were given"),
        Err(AnnouncerError::AlreadySynced(x)) => {
            std::mem::forget(x);
            kani::cover!(u != 0);
        }
        Err(AnnouncerError::Target(_)) => {
            let to_sync = u | (p & !s);
            let r = replicas.min(to_sync.count_ones() as usize);
            assert!(r.lower_bound() == 0 && p == 0, "C25: Target error although a replica count or preferred seeds exist");
        }
    }
    kani::cover!(true);
}

// ------------------------------------------------------------------------------------------
// Fetcher

use crate::node::sync::fetch::{Candidate, Fetcher, FetcherConfig, FetcherResult};
use crate::node::{Address, FetchResult};

/// Reference target of the fetcher (its module documentation): reached when every preferred seed
/// has been fetched from successfully (if there are preferred seeds), or when the number of nodes
/// fetched from successfully reaches the replication bound (upper bound of a range, else the
/// lower bound); the bound is clamped to the number of candidates at construction.
struct FModel {
    local: u8,
    seeds: u8,
    ok: u8,     // nodes with a successful result
    done: u8,   // nodes with any result
    lower: usize,
    upper: Option<usize>,
}
impl FModel {
    fn reached(&self) -> bool {
        (self.seeds != 0 && self.seeds & !self.ok == 0) || (self.ok.count_ones() as usize) >= self.upper.unwrap_or(self.lower)
    }
}

fn any_fetcher() -> Option<(Fetcher, FModel)> {
    let local: Id = kani::any();
    let seeds: u8 = kani::any();
    kani::assume(seeds < 16);
    let replicas = any_replicas();
    let mut cfg = FetcherConfig::public(BTreeSet::from_bits(seeds), replicas, local);
    // one extra candidate outside the seed set (possibly the local node, possibly a seed again)
    let extra: Id = kani::any();
    let with_extra: bool = kani::any();
    if with_extra {
        cfg = cfg.with_candidates([Candidate::new(extra)]);
    }
    let l = bit(local);
    let ncand = (seeds & !l).count_ones() as usize + (with_extra && extra != local) as usize;
    match Fetcher::new(cfg) {
        Ok(f) => {
            assert!(ncand > 0, "C25: fetcher constructed without candidates");
            let r = replicas.min(ncand);
            // NB: `seeds` keeps the local node if it was passed in (Fetcher::new does not remove it)
            Some((f, FModel { local: l, seeds, ok: 0, done: 0, lower: r.lower_bound(), upper: r.upper_bound() }))
        }
        Err(e) => {
            std::mem::forget(e);
            None
        }
    }
}

/// Drive the fetcher the documented way for up to `K` rounds: take the next candidate, mark it
/// ready, take it as the next fetch, report a symbolic result.  The fetcher never hands out the
/// local node or a node that already has a result, and reports success exactly when the reference
/// target is reached; `finish()` agrees.
fn fetcher_rounds<const K: usize>() {
    let Some((mut f, mut m)) = any_fetcher() else { return };
    let mut i = 0;
    while i < K {
        let Some(n) = f.next_node() else { break };
        assert!(bit(n) != m.local, "C25: the fetcher handed out the local node");
        assert!(bit(n) & m.done == 0, "C25: the fetcher handed out a node that already has a result");
        f.ready_to_fetch(n, Address);
        match f.next_fetch() {
            Some((x, _)) => assert!(x == n, "C25: next_fetch returned a different node than the one made ready"),
            None => panic!("C25: a node made ready was not handed out for fetching"),
        }
        let success: bool = kani::any();
        m.done |= bit(n);
        let flow = if success {
            m.ok |= bit(n);
            f.fetch_complete(n, FetchResult::Success)
        } else {
            f.fetch_complete(n, FetchResult::Failed { reason: String::new() })
        };
        match flow {
            ControlFlow::Break(s) => {
                assert!(m.reached(), "C25: fetcher reports success although the target is not reached");
                std::mem::forget(s);
                kani::cover!(true);
                std::mem::forget(f);
                return;
            }
            ControlFlow::Continue(p) => {
                assert!(!m.reached(), "C25: target reached but the fetcher does not report success");
                assert!(p.succeeded() == m.ok.count_ones() as usize, "C25: progress counts something other than the successful nodes");
                assert!(p.failed() == (m.done & !m.ok).count_ones() as usize);
            }
        }
        i += 1;
    }
    match f.finish() {
        FetcherResult::TargetReached(s) => {
            std::mem::forget(s);
            panic!("C25: finish reports success although the target is not reached")
        }
        FetcherResult::TargetError(t) => {
            assert!(!m.reached());
            assert!(t.missed_nodes().bits == m.seeds & !m.ok, "C25: missed nodes differ from the preferred seeds without a successful fetch");
            std::mem::forget(t);
        }
    }
    kani::cover!(true);
}

/// A result can arrive for a node *after* it was made ready (its session dropped): two nodes are
/// taken and made ready, the first one fails before it is fetched.  `next_fetch` must never hand
/// out a node that already has a result (nor the local node).
#[kani::proof]
#[kani::unwind(7)]
fn c25_fetcher_result_before_fetch() {
    let Some((mut f, mut m)) = any_fetcher() else { return };
    let Some(n0) = f.next_node() else { return };
    let Some(n1) = f.next_node() else { return };
    // (a duplicate candidate can be handed out twice before it has a result; the property only
    // speaks about nodes that already have one)
    kani::assume(n0 != n1);
    f.ready_to_fetch(n0, Address);
    f.ready_to_fetch(n1, Address);
    f.fetch_failed(n0, "");
    m.done |= bit(n0);
    let mut i = 0;
    while i < 2 {
        if let Some((x, _)) = f.next_fetch() {
            assert!(bit(x) & m.done == 0, "C25: the fetcher handed out a node that already has a result");
            assert!(bit(x) != m.local, "C25: the fetcher handed out the local node");
            kani::cover!(x == n1);
        }
        i += 1;
    }
    std::mem::forget(f);
}

/// Results that were never asked for: a fetch result for the *local node* (the property's
/// quantifier includes it) must not be counted towards the target or the progress.
#[kani::proof]
#[kani::unwind(7)]
fn c25_fetcher_never_counts_local() {
    let Some((mut f, m)) = any_fetcher() else { return };
    let local = Id(m.local.trailing_zeros() as u8);
    let flow = f.fetch_complete(local, FetchResult::Success);
    match flow {
        ControlFlow::Break(s) => {
            // only possible when the target asks for nothing (replication bound 0)
            assert!(m.reached(), "C25: a result for the local node completed the fetch target");
            assert!(s.progress().succeeded() == 0, "C25: the fetcher counted the local node as a successful replica");
            std::mem::forget(s);
        }
        ControlFlow::Continue(p) => {
            assert!(!m.reached());
            assert!(p.succeeded() == 0, "C25: the fetcher counted the local node as a successful replica");
        }
    }
    kani::cover!(true);
    std::mem::forget(f);
}

#[kani::proof]
#[kani::unwind(7)]
fn c25_fetcher_one_round() {
    fetcher_rounds::<1>()
}

#[kani::proof]
#[kani::unwind(7)]
fn c25_fetcher_two_rounds() {
    fetcher_rounds::<2>()
}

#[kani::proof]
#[kani::unwind(7)]
fn c25_fetcher_three_rounds() {
    fetcher_rounds::<3>()
}

#[cfg(test)]
mod replay {
    use super::*;
    include!("/verif/replays/active/shadow_sync.rs");
}
