//! `vcoll`: fixed-capacity, allocation-free sorted containers with the observable semantics of
//! the subset of `std::collections::{BTreeMap, BTreeSet}` used by the shadowed sources (key
//! order, `insert` returns the old value, `entry`, double-ended iteration).
//!
//! K-shadow engine (DESIGN §2): the shadow generator rewrites only the
//! `use std::collections::...` lines of the copied sources so that they resolve here.  CBMC then
//! reasons about a linear scan over a 4-slot array instead of B-tree node code (std B-trees: 3
//! maps x 2 keys did not finish in 900 s) or heap vectors (`Vec::insert`'s symbolic `memmove`
//! drove CBMC to 56 GB).  Capacity overflow is an assertion failure, never silent.
//! `c22_vcoll_matches_std_btreemap` checks this file against std at size <= 2.
#![allow(dead_code)]
pub use std::collections::VecDeque;

pub const CAP: usize = 4;

#[derive(Clone, Debug, PartialEq, Eq)]
pub struct BTreeMap<K, V> {
    // Separate fields instead of an array: slot access is a `match` on the index, so CBMC needs no
    // array theory and no pointer arithmetic (an array-backed version ran out of 25 GB on a
    // 3-operand merge of 1-entry maps, DESIGN §8).
    s0: Option<(K, V)>,
    s1: Option<(K, V)>,
    s2: Option<(K, V)>,
    s3: Option<(K, V)>,
    n: usize,
}

impl<K, V> Default for BTreeMap<K, V> {
    fn default() -> Self {
        Self::new()
    }
}

impl<K, V> BTreeMap<K, V> {
    pub fn new() -> Self {
        Self { s0: None, s1: None, s2: None, s3: None, n: 0 }
    }
    pub fn len(&self) -> usize {
        self.n
    }
    pub fn is_empty(&self) -> bool {
        self.n == 0
    }
    pub fn iter(&self) -> btree_map::Iter<'_, K, V> {
        btree_map::Iter { m: self, lo: 0, hi: self.n }
    }
    pub fn keys(&self) -> btree_map::Keys<'_, K, V> {
        btree_map::Keys(self.iter())
    }
    pub fn values(&self) -> btree_map::Values<'_, K, V> {
        btree_map::Values(self.iter())
    }
    pub fn into_keys(self) -> btree_map::IntoKeys<K, V> {
        btree_map::IntoKeys(self.into_iter())
    }
    pub fn first_key_value(&self) -> Option<(&K, &V)> {
        self.iter().next()
    }
    pub fn last_key_value(&self) -> Option<(&K, &V)> {
        self.iter().next_back()
    }
    pub(crate) fn slot(&self, i: usize) -> &Option<(K, V)> {
        match i {
            0 => &self.s0,
            1 => &self.s1,
            2 => &self.s2,
            3 => &self.s3,
            _ => panic!("vcoll: slot index out of range"),
        }
    }
    pub(crate) fn slot_mut(&mut self, i: usize) -> &mut Option<(K, V)> {
        match i {
            0 => &mut self.s0,
            1 => &mut self.s1,
            2 => &mut self.s2,
            3 => &mut self.s3,
            _ => panic!("vcoll: slot index out of range"),
        }
    }
    fn at(&self, i: usize) -> (&K, &V) {
        match self.slot(i) {
            Some((k, v)) => (k, v),
            None => unreachable!(),
        }
    }
}

impl<K: Ord, V> BTreeMap<K, V> {
    /// Ok(i): key at slot i; Err(i): not present, would be inserted at slot i.
    fn find(&self, k: &K) -> Result<usize, usize> {
        let mut i = 0;
        while i < self.n {
            // `==` / `>` instead of `Ord::cmp`: on primitive keys they are plain operators that
            // CBMC constant-folds, so slot indices stay concrete when the keys are concrete.
            let key = self.at(i).0;
            if *key == *k {
                return Ok(i);
            } else if *key > *k {
                return Err(i);
            }
            i += 1;
        }
        Err(i)
    }
    fn insert_at(&mut self, i: usize, k: K, val: V) {
        assert!(self.n < CAP, "vcoll: capacity exceeded (harness larger than the shadow containers)");
        let mut j = self.n;
        while j > i {
            let t = self.slot_mut(j - 1).take();
            *self.slot_mut(j) = t;
            j -= 1;
        }
        *self.slot_mut(i) = Some((k, val));
        self.n += 1;
    }
    fn remove_at(&mut self, i: usize) -> (K, V) {
        let out = self.slot_mut(i).take();
        let mut j = i;
        while j + 1 < self.n {
            let t = self.slot_mut(j + 1).take();
            *self.slot_mut(j) = t;
            j += 1;
        }
        self.n -= 1;
        match out {
            Some(kv) => kv,
            None => unreachable!(),
        }
    }
    pub fn insert(&mut self, k: K, val: V) -> Option<V> {
        match self.find(&k) {
            Ok(i) => match self.slot_mut(i) {
                Some((_, v)) => Some(std::mem::replace(v, val)),
                None => unreachable!(),
            },
            Err(i) => {
                self.insert_at(i, k, val);
                None
            }
        }
    }
    pub fn get(&self, k: &K) -> Option<&V> {
        match self.find(k) {
            Ok(i) => Some(self.at(i).1),
            Err(_) => None,
        }
    }
    pub fn get_mut(&mut self, k: &K) -> Option<&mut V> {
        match self.find(k) {
            Ok(i) => match self.slot_mut(i) {
                Some((_, v)) => Some(v),
                None => unreachable!(),
            },
            Err(_) => None,
        }
    }
    pub fn remove(&mut self, k: &K) -> Option<V> {
        match self.find(k) {
            Ok(i) => Some(self.remove_at(i).1),
            Err(_) => None,
        }
    }
    pub fn contains_key(&self, k: &K) -> bool {
        self.find(k).is_ok()
    }
    pub fn pop_first(&mut self) -> Option<(K, V)> {
        if self.n == 0 {
            None
        } else {
            Some(self.remove_at(0))
        }
    }
    pub fn entry(&mut self, k: K) -> btree_map::Entry<'_, K, V> {
        match self.find(&k) {
            Ok(i) => btree_map::Entry::Occupied(btree_map::OccupiedEntry { m: self, i }),
            Err(i) => btree_map::Entry::Vacant(btree_map::VacantEntry { m: self, i, k }),
        }
    }
    pub fn retain<F: FnMut(&K, &mut V) -> bool>(&mut self, mut f: F) {
        let mut i = 0;
        while i < self.n {
            let keep = match self.slot_mut(i) {
                Some((k, v)) => f(k, v),
                None => unreachable!(),
            };
            if keep {
                i += 1;
            } else {
                self.remove_at(i);
            }
        }
    }
}

impl<K: Ord, V> FromIterator<(K, V)> for BTreeMap<K, V> {
    fn from_iter<I: IntoIterator<Item = (K, V)>>(it: I) -> Self {
        let mut m = Self::new();
        for (k, v) in it {
            m.insert(k, v);
        }
        m
    }
}

impl<K: Ord, V, const N: usize> From<[(K, V); N]> for BTreeMap<K, V> {
    fn from(a: [(K, V); N]) -> Self {
        Self::from_iter(a)
    }
}

impl<K: Ord, V> Extend<(K, V)> for BTreeMap<K, V> {
    fn extend<I: IntoIterator<Item = (K, V)>>(&mut self, it: I) {
        for (k, v) in it {
            self.insert(k, v);
        }
    }
}

impl<K, V> IntoIterator for BTreeMap<K, V> {
    type Item = (K, V);
    type IntoIter = btree_map::IntoIter<K, V>;
    fn into_iter(self) -> Self::IntoIter {
        let n = self.n;
        btree_map::IntoIter { m: self, lo: 0, hi: n }
    }
}

impl<'a, K, V> IntoIterator for &'a BTreeMap<K, V> {
    type Item = (&'a K, &'a V);
    type IntoIter = btree_map::Iter<'a, K, V>;
    fn into_iter(self) -> Self::IntoIter {
        self.iter()
    }
}

pub mod btree_map {
    pub use super::BTreeMap;

    pub struct Iter<'a, K, V> {
        pub(super) m: &'a BTreeMap<K, V>,
        pub(super) lo: usize,
        pub(super) hi: usize,
    }
    impl<'a, K, V> Iterator for Iter<'a, K, V> {
        type Item = (&'a K, &'a V);
        fn next(&mut self) -> Option<Self::Item> {
            if self.lo < self.hi {
                self.lo += 1;
                Some(self.m.at(self.lo - 1))
            } else {
                None
            }
        }
    }
    impl<'a, K, V> DoubleEndedIterator for Iter<'a, K, V> {
        fn next_back(&mut self) -> Option<Self::Item> {
            if self.lo < self.hi {
                self.hi -= 1;
                Some(self.m.at(self.hi))
            } else {
                None
            }
        }
    }
    pub struct Keys<'a, K, V>(pub(super) Iter<'a, K, V>);
    impl<'a, K, V> Iterator for Keys<'a, K, V> {
        type Item = &'a K;
        fn next(&mut self) -> Option<&'a K> {
            self.0.next().map(|(k, _)| k)
        }
    }
    impl<'a, K, V> DoubleEndedIterator for Keys<'a, K, V> {
        fn next_back(&mut self) -> Option<&'a K> {
            self.0.next_back().map(|(k, _)| k)
        }
    }
    pub struct Values<'a, K, V>(pub(super) Iter<'a, K, V>);
    impl<'a, K, V> Iterator for Values<'a, K, V> {
        type Item = &'a V;
        fn next(&mut self) -> Option<&'a V> {
            self.0.next().map(|(_, v)| v)
        }
    }
    pub struct IntoIter<K, V> {
        pub(super) m: BTreeMap<K, V>,
        pub(super) lo: usize,
        pub(super) hi: usize,
    }
    impl<K, V> Iterator for IntoIter<K, V> {
        type Item = (K, V);
        fn next(&mut self) -> Option<(K, V)> {
            if self.lo < self.hi {
                self.lo += 1;
                self.m.slot_mut(self.lo - 1).take()
            } else {
                None
            }
        }
    }
    impl<K, V> DoubleEndedIterator for IntoIter<K, V> {
        fn next_back(&mut self) -> Option<(K, V)> {
            if self.lo < self.hi {
                self.hi -= 1;
                self.m.slot_mut(self.hi).take()
            } else {
                None
            }
        }
    }
    pub struct IntoKeys<K, V>(pub(super) IntoIter<K, V>);
    impl<K, V> Iterator for IntoKeys<K, V> {
        type Item = K;
        fn next(&mut self) -> Option<K> {
            self.0.next().map(|(k, _)| k)
        }
    }

    pub struct OccupiedEntry<'a, K, V> {
        pub(super) m: &'a mut BTreeMap<K, V>,
        pub(super) i: usize,
    }
    pub struct VacantEntry<'a, K, V> {
        pub(super) m: &'a mut BTreeMap<K, V>,
        pub(super) i: usize,
        pub(super) k: K,
    }
    pub enum Entry<'a, K, V> {
        Occupied(OccupiedEntry<'a, K, V>),
        Vacant(VacantEntry<'a, K, V>),
    }
    impl<'a, K, V> OccupiedEntry<'a, K, V> {
        pub fn get(&self) -> &V {
            self.m.at(self.i).1
        }
        pub fn get_mut(&mut self) -> &mut V {
            match self.m.slot_mut(self.i) {
                Some((_, v)) => v,
                None => unreachable!(),
            }
        }
        pub fn into_mut(self) -> &'a mut V {
            match self.m.slot_mut(self.i) {
                Some((_, v)) => v,
                None => unreachable!(),
            }
        }
    }
    impl<'a, K: Ord, V> VacantEntry<'a, K, V> {
        pub fn insert(self, v: V) -> &'a mut V {
            let i = self.i;
            self.m.insert_at(i, self.k, v);
            match self.m.slot_mut(i) {
                Some((_, v)) => v,
                None => unreachable!(),
            }
        }
    }
    impl<'a, K: Ord, V> Entry<'a, K, V> {
        pub fn or_insert_with<F: FnOnce() -> V>(self, f: F) -> &'a mut V {
            match self {
                Entry::Occupied(o) => o.into_mut(),
                Entry::Vacant(v) => v.insert(f()),
            }
        }
        pub fn or_insert(self, d: V) -> &'a mut V {
            self.or_insert_with(|| d)
        }
        pub fn or_default(self) -> &'a mut V
        where
            V: Default,
        {
            self.or_insert_with(V::default)
        }
    }
}

#[derive(Clone, Debug, PartialEq, Eq)]
pub struct BTreeSet<K> {
    m: BTreeMap<K, ()>,
}

impl<K> Default for BTreeSet<K> {
    fn default() -> Self {
        Self { m: BTreeMap::new() }
    }
}

impl<K> BTreeSet<K> {
    pub fn new() -> Self {
        Self { m: BTreeMap::new() }
    }
    pub fn iter(&self) -> btree_map::Keys<'_, K, ()> {
        self.m.keys()
    }
    pub fn is_empty(&self) -> bool {
        self.m.is_empty()
    }
    pub fn len(&self) -> usize {
        self.m.len()
    }
    pub fn first(&self) -> Option<&K> {
        self.iter().next()
    }
    pub fn last(&self) -> Option<&K> {
        self.iter().next_back()
    }
}

impl<K: Ord> BTreeSet<K> {
    pub fn insert(&mut self, k: K) -> bool {
        self.m.insert(k, ()).is_none()
    }
    pub fn remove(&mut self, k: &K) -> bool {
        self.m.remove(k).is_some()
    }
    pub fn contains(&self, k: &K) -> bool {
        self.m.contains_key(k)
    }
    pub fn pop_first(&mut self) -> Option<K> {
        self.m.pop_first().map(|(k, _)| k)
    }
    pub fn is_subset(&self, other: &Self) -> bool {
        self.iter().all(|k| other.contains(k))
    }
    pub fn retain<F: FnMut(&K) -> bool>(&mut self, mut f: F) {
        self.m.retain(|k, _| f(k))
    }
}

impl<K: Ord> FromIterator<K> for BTreeSet<K> {
    fn from_iter<I: IntoIterator<Item = K>>(it: I) -> Self {
        let mut m = Self::new();
        for k in it {
            m.insert(k);
        }
        m
    }
}

impl<K: Ord, const N: usize> From<[K; N]> for BTreeSet<K> {
    fn from(a: [K; N]) -> Self {
        Self::from_iter(a)
    }
}

impl<K: Ord> Extend<K> for BTreeSet<K> {
    fn extend<I: IntoIterator<Item = K>>(&mut self, it: I) {
        for k in it {
            self.insert(k);
        }
    }
}

impl<'a, K> IntoIterator for &'a BTreeSet<K> {
    type Item = &'a K;
    type IntoIter = btree_map::Keys<'a, K, ()>;
    fn into_iter(self) -> Self::IntoIter {
        self.iter()
    }
}

impl<K> IntoIterator for BTreeSet<K> {
    type Item = K;
    type IntoIter = btree_map::IntoKeys<K, ()>;
    fn into_iter(self) -> Self::IntoIter {
        self.m.into_keys()
    }
}
