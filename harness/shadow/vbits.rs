//! `vcoll` (bitset flavour): `BTreeSet` / `BTreeMap` for key types over a universe of at most
//! 4 small ids, with the observable semantics of the std API subset used by the shadowed files
//! (ascending iteration order, `insert`/`remove` results, `intersection`, `difference`, ...).
//!
//! Sets are bit masks and maps are 4 option fields selected by `match`, so membership can stay
//! *symbolic* without CBMC forking on container structure (std B-trees and sorted vectors blow up
//! at 2 symbolic keys, DESIGN §8).  Used by the single-file shadows whose key type is a node /
//! commit id (the algorithms only use `Ord`/`Eq`/`Copy` on those ids).
#![allow(dead_code)]
use std::marker::PhantomData;

pub const UNIVERSE: u8 = 4;

/// Key types usable with these containers: an order-preserving bijection to `0..UNIVERSE`.
pub trait SmallKey: Copy + Ord + 'static {
    fn idx(&self) -> u8;
    /// Table of all keys in ascending order (lets iterators hand out `&K`).
    fn all() -> &'static [Self; 4];
}

/// A 1-byte ordered id: the shim type for node ids, DIDs and object ids.
#[derive(Clone, Copy, Debug, PartialEq, Eq, PartialOrd, Ord, Hash)]
pub struct Id(pub u8);

static IDS: [Id; 4] = [Id(0), Id(1), Id(2), Id(3)];

impl SmallKey for Id {
    fn idx(&self) -> u8 {
        assert!(self.0 < UNIVERSE, "vcoll: id outside the universe");
        self.0
    }
    fn all() -> &'static [Self; 4] {
        &IDS
    }
}

impl std::fmt::Display for Id {
    fn fmt(&self, _f: &mut std::fmt::Formatter<'_>) -> std::fmt::Result {
        Ok(())
    }
}

#[cfg(kani)]
impl kani::Arbitrary for Id {
    fn any() -> Self {
        let i: u8 = kani::any();
        kani::assume(i < UNIVERSE);
        Id(i)
    }
}

// ------------------------------------------------------------------------------------------
// BTreeSet

pub struct BTreeSet<K> {
    pub(crate) bits: u8,
    k: PhantomData<K>,
}

impl<K> Clone for BTreeSet<K> {
    fn clone(&self) -> Self {
        Self { bits: self.bits, k: PhantomData }
    }
}
impl<K> PartialEq for BTreeSet<K> {
    fn eq(&self, o: &Self) -> bool {
        self.bits == o.bits
    }
}
impl<K> Eq for BTreeSet<K> {}
impl<K> Default for BTreeSet<K> {
    fn default() -> Self {
        Self::new()
    }
}
impl<K> std::fmt::Debug for BTreeSet<K> {
    fn fmt(&self, _f: &mut std::fmt::Formatter<'_>) -> std::fmt::Result {
        Ok(())
    }
}

impl<K> BTreeSet<K> {
    pub fn new() -> Self {
        Self { bits: 0, k: PhantomData }
    }
    pub fn from_bits(bits: u8) -> Self {
        Self { bits: bits & 0x0f, k: PhantomData }
    }
    pub fn len(&self) -> usize {
        self.bits.count_ones() as usize
    }
    pub fn is_empty(&self) -> bool {
        self.bits == 0
    }
    pub fn clear(&mut self) {
        self.bits = 0;
    }
}

impl<K: SmallKey> BTreeSet<K> {
    pub fn insert(&mut self, k: K) -> bool {
        let b = 1u8 << k.idx();
        let new = self.bits & b == 0;
        self.bits |= b;
        new
    }
    pub fn remove(&mut self, k: &K) -> bool {
        let b = 1u8 << k.idx();
        let had = self.bits & b != 0;
        self.bits &= !b;
        had
    }
    pub fn contains(&self, k: &K) -> bool {
        self.bits & (1u8 << k.idx()) != 0
    }
    pub fn iter(&self) -> Bits<'_, K> {
        Bits { bits: self.bits, k: PhantomData }
    }
    pub fn intersection<'a>(&'a self, o: &'a Self) -> Bits<'a, K> {
        Bits { bits: self.bits & o.bits, k: PhantomData }
    }
    pub fn difference<'a>(&'a self, o: &'a Self) -> Bits<'a, K> {
        Bits { bits: self.bits & !o.bits, k: PhantomData }
    }
    pub fn union<'a>(&'a self, o: &'a Self) -> Bits<'a, K> {
        Bits { bits: self.bits | o.bits, k: PhantomData }
    }
    pub fn is_subset(&self, o: &Self) -> bool {
        self.bits & !o.bits == 0
    }
    pub fn first(&self) -> Option<&K> {
        self.iter().next()
    }
    pub fn last(&self) -> Option<&K> {
        self.iter().next_back()
    }
    pub fn pop_first(&mut self) -> Option<K> {
        let k = self.iter().next().copied();
        if let Some(k) = k {
            self.remove(&k);
        }
        k
    }
    pub fn retain<F: FnMut(&K) -> bool>(&mut self, mut f: F) {
        let mut i = 0u8;
        while i < UNIVERSE {
            if self.bits & (1 << i) != 0 && !f(&K::all()[i as usize]) {
                self.bits &= !(1 << i);
            }
            i += 1;
        }
    }
}

/// Iterator over the members of a bit mask, ascending; yields `&'static K` from the key table.
pub struct Bits<'a, K> {
    bits: u8,
    k: PhantomData<&'a K>,
}
impl<'a, K> Clone for Bits<'a, K> {
    fn clone(&self) -> Self {
        Self { bits: self.bits, k: PhantomData }
    }
}
impl<'a, K: SmallKey> Iterator for Bits<'a, K> {
    type Item = &'a K;
    fn next(&mut self) -> Option<&'a K> {
        // concrete slot order, symbolic membership: no symbolic table index
        let mut i = 0u8;
        while i < UNIVERSE {
            if self.bits & (1 << i) != 0 {
                self.bits &= !(1 << i);
                return Some(&K::all()[i as usize]);
            }
            i += 1;
        }
        None
    }
}
impl<'a, K: SmallKey> DoubleEndedIterator for Bits<'a, K> {
    fn next_back(&mut self) -> Option<&'a K> {
        let mut i = UNIVERSE;
        while i > 0 {
            i -= 1;
            if self.bits & (1 << i) != 0 {
                self.bits &= !(1 << i);
                return Some(&K::all()[i as usize]);
            }
        }
        None
    }
}

/// By-value iterator.
pub struct IntoBits<K: 'static> {
    inner: Bits<'static, K>,
}
impl<K: SmallKey> Iterator for IntoBits<K> {
    type Item = K;
    fn next(&mut self) -> Option<K> {
        self.inner.next().copied()
    }
}
impl<K: SmallKey> DoubleEndedIterator for IntoBits<K> {
    fn next_back(&mut self) -> Option<K> {
        self.inner.next_back().copied()
    }
}

impl<K: SmallKey> IntoIterator for BTreeSet<K> {
    type Item = K;
    type IntoIter = IntoBits<K>;
    fn into_iter(self) -> IntoBits<K> {
        IntoBits { inner: Bits { bits: self.bits, k: PhantomData } }
    }
}
impl<'a, K: SmallKey> IntoIterator for &'a BTreeSet<K> {
    type Item = &'a K;
    type IntoIter = Bits<'a, K>;
    fn into_iter(self) -> Bits<'a, K> {
        self.iter()
    }
}
impl<K: SmallKey> FromIterator<K> for BTreeSet<K> {
    fn from_iter<I: IntoIterator<Item = K>>(it: I) -> Self {
        let mut s = Self::new();
        for k in it {
            s.insert(k);
        }
        s
    }
}
impl<K: SmallKey, const N: usize> From<[K; N]> for BTreeSet<K> {
    fn from(a: [K; N]) -> Self {
        Self::from_iter(a)
    }
}
impl<K: SmallKey> Extend<K> for BTreeSet<K> {
    fn extend<I: IntoIterator<Item = K>>(&mut self, it: I) {
        for k in it {
            self.insert(k);
        }
    }
}
impl<'a, K: SmallKey> Extend<&'a K> for BTreeSet<K> {
    fn extend<I: IntoIterator<Item = &'a K>>(&mut self, it: I) {
        for k in it {
            self.insert(*k);
        }
    }
}

// ------------------------------------------------------------------------------------------
// BTreeMap

#[derive(Clone, Debug, PartialEq, Eq)]
pub struct BTreeMap<K, V> {
    v0: Option<V>,
    v1: Option<V>,
    v2: Option<V>,
    v3: Option<V>,
    k: PhantomData<K>,
}

impl<K, V> Default for BTreeMap<K, V> {
    fn default() -> Self {
        Self::new()
    }
}

impl<K, V> BTreeMap<K, V> {
    pub fn new() -> Self {
        Self { v0: None, v1: None, v2: None, v3: None, k: PhantomData }
    }
    fn slot(&self, i: u8) -> &Option<V> {
        match i {
            0 => &self.v0,
            1 => &self.v1,
            2 => &self.v2,
            _ => &self.v3,
        }
    }
    fn slot_mut(&mut self, i: u8) -> &mut Option<V> {
        match i {
            0 => &mut self.v0,
            1 => &mut self.v1,
            2 => &mut self.v2,
            _ => &mut self.v3,
        }
    }
    pub(crate) fn bits(&self) -> u8 {
        (self.v0.is_some() as u8) | ((self.v1.is_some() as u8) << 1) | ((self.v2.is_some() as u8) << 2) | ((self.v3.is_some() as u8) << 3)
    }
    pub fn len(&self) -> usize {
        self.bits().count_ones() as usize
    }
    pub fn is_empty(&self) -> bool {
        self.bits() == 0
    }
}

impl<K: SmallKey, V> BTreeMap<K, V> {
    pub fn insert(&mut self, k: K, v: V) -> Option<V> {
        self.slot_mut(k.idx()).replace(v)
    }
    pub fn remove(&mut self, k: &K) -> Option<V> {
        self.slot_mut(k.idx()).take()
    }
    pub fn get(&self, k: &K) -> Option<&V> {
        self.slot(k.idx()).as_ref()
    }
    pub fn get_mut(&mut self, k: &K) -> Option<&mut V> {
        self.slot_mut(k.idx()).as_mut()
    }
    pub fn contains_key(&self, k: &K) -> bool {
        self.slot(k.idx()).is_some()
    }
    pub fn keys(&self) -> Bits<'_, K> {
        Bits { bits: self.bits(), k: PhantomData }
    }
    pub fn iter(&self) -> MapIter<'_, K, V> {
        MapIter { m: self, i: 0, j: UNIVERSE }
    }
    pub fn values(&self) -> Values<'_, K, V> {
        Values(self.iter())
    }
    pub fn entry(&mut self, k: K) -> Entry<'_, K, V> {
        Entry { m: self, k }
    }
    pub fn first_key_value(&self) -> Option<(&K, &V)> {
        self.iter().next()
    }
    pub fn last_key_value(&self) -> Option<(&K, &V)> {
        self.iter().next_back()
    }
    pub fn retain<F: FnMut(&K, &mut V) -> bool>(&mut self, mut f: F) {
        let mut i = 0u8;
        while i < UNIVERSE {
            let keep = match self.slot_mut(i) {
                Some(v) => f(&K::all()[i as usize], v),
                None => true,
            };
            if !keep {
                *self.slot_mut(i) = None;
            }
            i += 1;
        }
    }
    pub fn pop_first(&mut self) -> Option<(K, V)> {
        let mut i = 0u8;
        while i < UNIVERSE {
            if let Some(v) = self.slot_mut(i).take() {
                return Some((K::all()[i as usize], v));
            }
            i += 1;
        }
        None
    }
    pub fn into_keys(self) -> IntoBits<K> {
        IntoBits { inner: Bits { bits: self.bits(), k: PhantomData } }
    }
    pub fn into_values(self) -> std::vec::IntoIter<V> {
        let mut out = Vec::new();
        for (_, v) in self {
            out.push(v);
        }
        out.into_iter()
    }
}

pub struct Entry<'a, K, V> {
    m: &'a mut BTreeMap<K, V>,
    k: K,
}
impl<'a, K: SmallKey, V> Entry<'a, K, V> {
    pub fn or_insert_with<F: FnOnce() -> V>(self, f: F) -> &'a mut V {
        let s = self.m.slot_mut(self.k.idx());
        if s.is_none() {
            *s = Some(f());
        }
        match s {
            Some(v) => v,
            None => unreachable!(),
        }
    }
    pub fn or_insert(self, d: V) -> &'a mut V {
        self.or_insert_with(|| d)
    }
    pub fn or_default(self) -> &'a mut V
    where
        V: Default,
    {
        self.or_insert_with(V::default)
    }
    pub fn and_modify<F: FnOnce(&mut V)>(self, f: F) -> Self {
        if let Some(v) = self.m.slot_mut(self.k.idx()).as_mut() {
            f(v);
        }
        self
    }
}

pub struct MapIter<'a, K, V> {
    m: &'a BTreeMap<K, V>,
    i: u8,
    j: u8,
}
impl<'a, K: SmallKey, V> Iterator for MapIter<'a, K, V> {
    type Item = (&'a K, &'a V);
    fn next(&mut self) -> Option<Self::Item> {
        while self.i < self.j {
            let i = self.i;
            self.i += 1;
            if let Some(v) = self.m.slot(i) {
                return Some((&K::all()[i as usize], v));
            }
        }
        None
    }
}
impl<'a, K: SmallKey, V> DoubleEndedIterator for MapIter<'a, K, V> {
    fn next_back(&mut self) -> Option<Self::Item> {
        while self.i < self.j {
            self.j -= 1;
            if let Some(v) = self.m.slot(self.j) {
                return Some((&K::all()[self.j as usize], v));
            }
        }
        None
    }
}
pub struct Values<'a, K, V>(MapIter<'a, K, V>);
impl<'a, K: SmallKey, V> Iterator for Values<'a, K, V> {
    type Item = &'a V;
    fn next(&mut self) -> Option<&'a V> {
        self.0.next().map(|(_, v)| v)
    }
}

pub struct MapIntoIter<K, V> {
    m: BTreeMap<K, V>,
    i: u8,
}
impl<K: SmallKey, V> Iterator for MapIntoIter<K, V> {
    type Item = (K, V);
    fn next(&mut self) -> Option<(K, V)> {
        while self.i < UNIVERSE {
            let i = self.i;
            self.i += 1;
            if let Some(v) = self.m.slot_mut(i).take() {
                return Some((K::all()[i as usize], v));
            }
        }
        None
    }
}
impl<K: SmallKey, V> IntoIterator for BTreeMap<K, V> {
    type Item = (K, V);
    type IntoIter = MapIntoIter<K, V>;
    fn into_iter(self) -> MapIntoIter<K, V> {
        MapIntoIter { m: self, i: 0 }
    }
}
impl<'a, K: SmallKey, V> IntoIterator for &'a BTreeMap<K, V> {
    type Item = (&'a K, &'a V);
    type IntoIter = MapIter<'a, K, V>;
    fn into_iter(self) -> MapIter<'a, K, V> {
        self.iter()
    }
}
impl<K: SmallKey, V> FromIterator<(K, V)> for BTreeMap<K, V> {
    fn from_iter<I: IntoIterator<Item = (K, V)>>(it: I) -> Self {
        let mut m = Self::new();
        for (k, v) in it {
            m.insert(k, v);
        }
        m
    }
}
impl<K: SmallKey, V> Extend<(K, V)> for BTreeMap<K, V> {
    fn extend<I: IntoIterator<Item = (K, V)>>(&mut self, it: I) {
        for (k, v) in it {
            self.insert(k, v);
        }
    }
}

pub mod btree_map {
    pub use super::{BTreeMap, Entry};
}
pub mod btree_set {
    pub use super::BTreeSet;
}

// ------------------------------------------------------------------------------------------
// VecDeque: a 6-slot queue (one field per slot).  `pop_front` shifts every slot down by one with
// concrete field moves, `push_back` selects the slot by a `match` on the length - no heap, no
// symbolic indexing (std's VecDeque with a symbolic number of elements does not finish, DESIGN §8).

#[derive(Clone, Debug)]
pub struct VecDeque<T> {
    q0: Option<T>,
    q1: Option<T>,
    q2: Option<T>,
    q3: Option<T>,
    q4: Option<T>,
    q5: Option<T>,
    n: usize,
}

impl<T> Default for VecDeque<T> {
    fn default() -> Self {
        Self::new()
    }
}

impl<T> VecDeque<T> {
    pub fn new() -> Self {
        Self { q0: None, q1: None, q2: None, q3: None, q4: None, q5: None, n: 0 }
    }
    pub fn len(&self) -> usize {
        self.n
    }
    pub fn is_empty(&self) -> bool {
        self.n == 0
    }
    pub fn push_back(&mut self, t: T) {
        match self.n {
            0 => self.q0 = Some(t),
            1 => self.q1 = Some(t),
            2 => self.q2 = Some(t),
            3 => self.q3 = Some(t),
            4 => self.q4 = Some(t),
            5 => self.q5 = Some(t),
            _ => panic!("vcoll: VecDeque capacity exceeded (harness larger than the shadow containers)"),
        }
        self.n += 1;
    }
    pub fn pop_front(&mut self) -> Option<T> {
        if self.n == 0 {
            return None;
        }
        let out = self.q0.take();
        self.q0 = self.q1.take();
        self.q1 = self.q2.take();
        self.q2 = self.q3.take();
        self.q3 = self.q4.take();
        self.q4 = self.q5.take();
        self.n -= 1;
        out
    }
    pub fn front(&self) -> Option<&T> {
        self.q0.as_ref()
    }
}

impl<T> FromIterator<T> for VecDeque<T> {
    fn from_iter<I: IntoIterator<Item = T>>(it: I) -> Self {
        let mut q = Self::new();
        for t in it {
            q.push_back(t);
        }
        q
    }
}

impl<T> Extend<T> for VecDeque<T> {
    fn extend<I: IntoIterator<Item = T>>(&mut self, it: I) {
        for t in it {
            self.push_back(t);
        }
    }
}
