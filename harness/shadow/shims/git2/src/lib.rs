//! Name-only shim for the `git2` crate inside single-file shadows: the shadowed file only names
//! `git2::Error` (as an error variant payload).
#[derive(Debug, Clone, Copy, PartialEq, Eq)]
pub enum ErrorCode {
    NotFound,
    Other,
}
#[derive(Debug)]
pub struct Error(pub ErrorCode);
impl Error {
    pub fn code(&self) -> ErrorCode {
        self.0
    }
}
impl std::fmt::Display for Error {
    fn fmt(&self, _f: &mut std::fmt::Formatter<'_>) -> std::fmt::Result {
        Ok(())
    }
}
impl std::error::Error for Error {}
