//! Shim crate around the single-file shadows of `radicle::node::sync` and `sync::announce`
//! (DESIGN §2, K-shadow / single-file).  Everything in `node::sync` is /repo's code; this file
//! only provides the names those files import.
#![allow(dead_code, unused_imports)]
pub mod vcoll;

pub mod node {
    /// `radicle::node::NodeId` is a 32-byte public key; the algorithms under test only use
    /// `Ord`/`Eq`/`Copy` on it, so a 1-byte ordered id is an abstraction, not a different program.
    pub type NodeId = crate::vcoll::Id;
    pub mod sync;
}

pub mod identity {
    use crate::vcoll::{BTreeSet, Id, SmallKey};
    #[derive(Clone, Copy, Debug, PartialEq, Eq, PartialOrd, Ord)]
    pub struct Did(pub Id);
    impl Did {
        pub fn as_key(&self) -> &Id {
            &self.0
        }
    }
    static DIDS: [Did; 4] = [Did(Id(0)), Did(Id(1)), Did(Id(2)), Did(Id(3))];
    impl SmallKey for Did {
        fn idx(&self) -> u8 {
            self.0.idx()
        }
        fn all() -> &'static [Self; 4] {
            &DIDS
        }
    }
    pub enum Visibility {
        Public,
        Private { allow: BTreeSet<Did> },
    }
}

pub mod prelude {
    use crate::identity::{Did, Visibility};
    pub struct Doc {
        pub visibility: Visibility,
        pub delegates: crate::vcoll::BTreeSet<Did>,
    }
    impl Doc {
        pub fn visibility(&self) -> &Visibility {
            &self.visibility
        }
        pub fn delegates(&self) -> &crate::vcoll::BTreeSet<Did> {
            &self.delegates
        }
    }
}

#[cfg(kani)]
#[path = "/verif/harness/shadow/sync_harness.rs"]
mod verif_kani;
