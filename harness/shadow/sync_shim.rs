//! Shim crate around the single-file shadows of `radicle::node::sync` and `sync::announce`
//! (DESIGN §2, K-shadow / single-file).  Everything in `node::sync` is /repo's code; this file
//! only provides the names those files import.
#![allow(dead_code, unused_imports)]
pub mod vcoll;

pub mod node {
    /// `radicle::node::NodeId` is a 32-byte public key; the algorithms under test only use
    /// `Ord`/`Eq`/`Copy` on it, so a 1-byte ordered id is an abstraction, not a different program.
    pub type NodeId = crate::vcoll::Id;
    pub mod sync;

    /// `radicle::node::Address`: only moved around by the fetcher.
    #[derive(Clone, Debug, PartialEq, Eq)]
    pub struct Address;

    /// Model of `radicle::node::FetchResult` (the real `Success` variant carries ref updates and a
    /// namespace set, which the fetcher never inspects).
    #[derive(Clone, Debug)]
    pub enum FetchResult {
        Success,
        Failed { reason: String },
    }
    impl FetchResult {
        pub fn is_success(&self) -> bool {
            matches!(self, FetchResult::Success)
        }
    }

    /// Model of `radicle::node::FetchResults` (really an insertion-ordered `Vec<(NodeId,
    /// FetchResult)>`): per node id the first result pushed plus the *number* of further results, so
    /// that `get` (= first match) and the counts of `success()` / `failed()` (= all entries,
    /// duplicates included) behave like the real list.  This type is a *model*, not /repo's code.
    #[derive(Clone, Debug, Default)]
    pub struct FetchResults {
        first: [Option<FetchResult>; 4],
        more_ok: [u8; 4],
        more_failed: [u8; 4],
    }
    static NODES: [NodeId; 4] = [crate::vcoll::Id(0), crate::vcoll::Id(1), crate::vcoll::Id(2), crate::vcoll::Id(3)];
    impl FetchResults {
        pub fn push(&mut self, nid: NodeId, result: FetchResult) {
            let i = nid.0 as usize;
            assert!(i < 4);
            // concrete slot order, symbolic match: no symbolic array index
            let mut k = 0;
            while k < 4 {
                if k == i {
                    if self.first[k].is_none() {
                        self.first[k] = Some(result);
                        return;
                    } else if result.is_success() {
                        self.more_ok[k] += 1;
                    } else {
                        self.more_failed[k] += 1;
                    }
                    return;
                }
                k += 1;
            }
        }
        pub fn get(&self, nid: &NodeId) -> Option<&FetchResult> {
            let mut k = 0;
            while k < 4 {
                if k == nid.0 as usize {
                    return self.first[k].as_ref();
                }
                k += 1;
            }
            None
        }
        pub fn success(&self) -> impl Iterator<Item = (&NodeId, (), ())> + '_ {
            (0..4usize).flat_map(move |k| {
                let n = self.first[k].as_ref().map_or(0, |r| r.is_success() as usize) + self.more_ok[k] as usize;
                std::iter::repeat((&NODES[k], (), ())).take(n)
            })
        }
        pub fn failed(&self) -> impl Iterator<Item = (&NodeId, &str)> + '_ {
            (0..4usize).flat_map(move |k| {
                let n = self.first[k].as_ref().map_or(0, |r| !r.is_success() as usize) + self.more_failed[k] as usize;
                std::iter::repeat((&NODES[k], "")).take(n)
            })
        }
    }
}

pub mod identity {
    use crate::vcoll::{BTreeSet, Id, SmallKey};
    #[derive(Clone, Copy, Debug, PartialEq, Eq, PartialOrd, Ord)]
    pub struct Did(pub Id);
    impl Did {
        pub fn as_key(&self) -> &Id {
            &self.0
        }
    }
    static DIDS: [Did; 4] = [Did(Id(0)), Did(Id(1)), Did(Id(2)), Did(Id(3))];
    impl SmallKey for Did {
        fn idx(&self) -> u8 {
            self.0.idx()
        }
        fn all() -> &'static [Self; 4] {
            &DIDS
        }
    }
    pub enum Visibility {
        Public,
        Private { allow: BTreeSet<Did> },
    }
}

pub mod prelude {
    use crate::identity::{Did, Visibility};
    pub struct Doc {
        pub visibility: Visibility,
        pub delegates: crate::vcoll::BTreeSet<Did>,
    }
    impl Doc {
        pub fn visibility(&self) -> &Visibility {
            &self.visibility
        }
        pub fn delegates(&self) -> &crate::vcoll::BTreeSet<Did> {
            &self.delegates
        }
    }
}

#[cfg(kani)]
#[path = "/verif/harness/shadow/sync_harness.rs"]
mod verif_kani;
