//! Shim crate around the single-file shadow of `radicle::git::canonical` (DESIGN §2).
//! `git/canonical.rs` is /repo's code; this file provides the names it imports: 1-byte ordered
//! ids for `Did` and `Oid`, and `raw::Repository` as a *symbolic commit graph* whose
//! `merge_base` returns any best common ancestor (git's contract).
#![allow(dead_code, unused_imports)]
pub mod vcoll;

pub mod prelude {
    use crate::vcoll::{Id, SmallKey};
    #[derive(Clone, Copy, Debug, PartialEq, Eq, PartialOrd, Ord)]
    pub struct Did(pub Id);
    impl Did {
        pub fn as_key(&self) -> &Id {
            &self.0
        }
    }
    static DIDS: [Did; 4] = [Did(Id(0)), Did(Id(1)), Did(Id(2)), Did(Id(3))];
    impl SmallKey for Did {
        fn idx(&self) -> u8 {
            self.0.idx()
        }
        fn all() -> &'static [Self; 4] {
            &DIDS
        }
    }
    pub struct Project;
    impl Project {
        pub fn default_branch(&self) -> &str {
            "master"
        }
    }
}

pub mod storage {
    use crate::git::{raw, Oid, Qualified};
    use crate::prelude::Did;
    pub trait ReadRepository {
        fn reference_oid(&self, remote: &Did, reference: &Qualified) -> Result<Oid, raw::Error>;
    }
}

pub mod git {
    use crate::vcoll::{Id, SmallKey};
    pub mod canonical;

    pub mod raw {
        pub use git2::{Error, ErrorCode};
        /// `git2::Oid`: a commit id of the symbolic graph (0..4).
        #[derive(Clone, Copy, Debug, PartialEq, Eq, PartialOrd, Ord)]
        pub struct Oid(pub u8);
        impl std::fmt::Display for Oid {
            fn fmt(&self, _f: &mut std::fmt::Formatter<'_>) -> std::fmt::Result {
                Ok(())
            }
        }

        /// A commit graph on 4 commits given by the ancestor sets `anc[i]` (bit j set <=> commit j
        /// is an ancestor of, or equal to, commit i; closed and acyclic by construction in the
        /// harness).  `pick` resolves the choice among several best common ancestors.
        pub struct Repository {
            pub anc: [u8; 4],
            pub pick: [u8; 16],
        }

        impl Repository {
            /// Best common ancestors of a and b: common ancestors that are not a strict ancestor of
            /// another common ancestor.
            pub fn best_common(&self, a: Oid, b: Oid) -> u8 {
                let common = self.anc[a.0 as usize] & self.anc[b.0 as usize];
                let mut best = 0u8;
                let mut c = 0u8;
                while c < 4 {
                    if common & (1 << c) != 0 {
                        // c is best unless some other common ancestor d strictly descends from c
                        let mut dominated = false;
                        let mut d = 0u8;
                        while d < 4 {
                            if d != c && common & (1 << d) != 0 && self.anc[d as usize] & (1 << c) != 0 {
                                dominated = true;
                            }
                            d += 1;
                        }
                        if !dominated {
                            best |= 1 << c;
                        }
                    }
                    c += 1;
                }
                best
            }
            pub fn merge_base(&self, a: Oid, b: Oid) -> Result<Oid, Error> {
                let best = self.best_common(a, b);
                if best == 0 {
                    return Err(Error(ErrorCode::NotFound));
                }
                // any best common ancestor may be returned (git's contract): `pick` is arbitrary
                // per ordered pair, constrained to the best set by the harness
                let p = self.pick[(a.0 * 4 + b.0) as usize];
                assert!(p < 4 && best & (1 << p) != 0);
                Ok(Oid(p))
            }
            pub fn graph_ahead_behind(&self, a: Oid, b: Oid) -> Result<(usize, usize), Error> {
                let (x, y) = (self.anc[a.0 as usize], self.anc[b.0 as usize]);
                Ok(((x & !y).count_ones() as usize, (y & !x).count_ones() as usize))
            }
        }
    }

    /// `radicle::git::Oid` (radicle-git-ext): a newtype around the raw oid that derefs to it.
    #[derive(Clone, Copy, Debug, PartialEq, Eq, PartialOrd, Ord)]
    pub struct Oid(raw::Oid);
    impl std::ops::Deref for Oid {
        type Target = raw::Oid;
        fn deref(&self) -> &raw::Oid {
            &self.0
        }
    }
    impl From<raw::Oid> for Oid {
        fn from(o: raw::Oid) -> Self {
            Oid(o)
        }
    }
    impl From<Oid> for raw::Oid {
        fn from(o: Oid) -> Self {
            o.0
        }
    }
    impl std::fmt::Display for Oid {
        fn fmt(&self, _f: &mut std::fmt::Formatter<'_>) -> std::fmt::Result {
            Ok(())
        }
    }
    static OIDS: [Oid; 4] = [Oid(raw::Oid(0)), Oid(raw::Oid(1)), Oid(raw::Oid(2)), Oid(raw::Oid(3))];
    impl SmallKey for Oid {
        fn idx(&self) -> u8 {
            assert!((self.0).0 < 4);
            (self.0).0
        }
        fn all() -> &'static [Self; 4] {
            &OIDS
        }
    }

    pub struct Qualified;
    impl std::fmt::Display for Qualified {
        fn fmt(&self, _f: &mut std::fmt::Formatter<'_>) -> std::fmt::Result {
            Ok(())
        }
    }
    impl From<&str> for Qualified {
        fn from(_: &str) -> Self {
            Qualified
        }
    }
    pub mod lit {
        pub fn refs_heads(name: &str) -> &str {
            name
        }
    }
    pub mod ext {
        pub fn is_not_found_err(e: &git2::Error) -> bool {
            e.code() == git2::ErrorCode::NotFound
        }
    }
}

#[cfg(kani)]
#[path = "/verif/harness/shadow/canonical_harness.rs"]
mod verif_kani;
