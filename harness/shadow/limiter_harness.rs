//! C17 — bypassed nodes and non-routable addresses are never limited.
//! Compiled inside the single-file shadow of `service/limiter.rs` (std hash containers replaced by
//! two-slot models; `HostName`, `NodeId`, `address::is_routable`, `LocalTime` are the real code).
#![allow(dead_code, unused_imports)]
use super::*;
use std::net::{IpAddr, Ipv4Addr};

struct Tok(usize, f64);
impl AsTokens for Tok {
    fn capacity(&self) -> usize {
        self.0
    }
    fn rate(&self) -> f64 {
        self.1
    }
}

fn node(i: u8) -> NodeId {
    let mut k = [0u8; 32];
    k[0] = i;
    NodeId::from(k)
}

/// One host (any IPv4 address), one bypassed node B and one ordinary node A.  First an arbitrary
/// "warm-up" request (from nobody / from A / from B) may create and drain the host's bucket
/// (capacity 1, no refill); then the request under test: if it comes from the bypassed node, or
/// the address is not routable, it is never limited - whatever happened before.  And a request
/// that is neither exempt nor within budget is limited (the exemptions do not leak).
#[kani::proof]
#[kani::unwind(34)]
fn c17_exemptions_hold_after_any_warmup() {
    let o: [u8; 4] = kani::any();
    let ip = IpAddr::V4(Ipv4Addr::new(o[0], o[1], o[2], o[3]));
    let host = HostName::Ip(ip);
    let (a, b) = (node(1), node(2));
    let mut r = RateLimiter::new([b]);
    let t = Tok(1, 0.0);
    let now = LocalTime::from_millis(kani::any::<u32>() as u128);

    let warm: u8 = kani::any();
    kani::assume(warm < 4);
    match warm {
        1 => {
            let _ = r.limit(host.clone(), None, &t, now);
        }
        2 => {
            let _ = r.limit(host.clone(), Some(&a), &t, now);
        }
        3 => {
            let _ = r.limit(host.clone(), Some(&b), &t, now);
        }
        _ => {}
    }
    let who: u8 = kani::any();
    kani::assume(who < 3);
    let limited = match who {
        0 => r.limit(host.clone(), None, &t, now),
        1 => r.limit(host.clone(), Some(&a), &t, now),
        _ => r.limit(host.clone(), Some(&b), &t, now),
    };
    let routable = address::is_routable(&ip);
    if who == 2 || !routable {
        assert!(!limited, "C17: a bypassed node or a non-routable address was rate limited");
    } else {
        // an ordinary request from a routable host: limited iff the single token was already spent
        // by an earlier ordinary request from the same host
        let spent = warm == 1 || warm == 2;
        assert!(limited == spent, "C17: an ordinary request was admitted beyond the bucket capacity, or limited within it");
    }
    kani::cover!(who == 2 && routable && (warm == 1 || warm == 2));
    kani::cover!(who != 2 && !routable);
    kani::cover!(limited);
    std::mem::forget(r);
}

#[cfg(test)]
mod replay {
    use super::*;
    include!("/verif/replays/active/shadow_limiter.rs");
}
