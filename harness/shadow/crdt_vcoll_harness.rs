//! Differential check of the shadow container model against std (compiled only inside the shadow
//! copy of radicle-crdt, where `crate::vcoll` exists).
#![allow(dead_code, unused_imports)]
use crate::*;

/// `vcoll` against std at size <= 2: same results for insert / get / len / remove on a key
/// universe of two keys (std's B-tree with more operations does not fit the solver's memory).
#[kani::proof]
#[kani::unwind(4)]
fn c22_vcoll_matches_std_btreemap() {
    let mut s: std::collections::BTreeMap<u8, u8> = std::collections::BTreeMap::new();
    let mut v: crate::vcoll::BTreeMap<u8, u8> = crate::vcoll::BTreeMap::new();
    let (k1, k2, x1, x2): (bool, bool, u8, u8) = (kani::any(), kani::any(), kani::any(), kani::any());
    let (k1, k2) = (k1 as u8, k2 as u8);
    assert!(s.insert(k1, x1) == v.insert(k1, x1));
    assert!(s.insert(k2, x2) == v.insert(k2, x2));
    assert!(s.len() == v.len());
    assert!(s.get(&0) == v.get(&0) && s.get(&1) == v.get(&1));
    assert!(s.first_key_value() == v.first_key_value());
    kani::cover!(k1 == k2);
    kani::cover!(k1 > k2);
    std::mem::forget(s);
}


#[cfg(test)]
mod replay {
    use super::*;
    include!("/verif/replays/active/shadow_crdt_vcoll.rs");
}
