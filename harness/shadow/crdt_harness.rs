//! C22 — CRDT merges are associative, commutative and idempotent (maps and sets).
//! Compiled inside the *shadow* copy of radicle-crdt (std B-trees replaced by `vcoll`).
#![allow(dead_code, unused_imports)]
use crate::*;
use crate::lwwset::LWWSet;
use crate::gset::GSet;

/// The three semilattice laws on concrete operands.
fn laws<S: Semilattice + Clone + PartialEq>(a: &S, b: &S, c: &S) {
    let l = a.clone().join(b.clone()).join(c.clone());
    let r = a.clone().join(b.clone().join(c.clone()));
    assert!(l == r, "C22: merge is not associative");
    assert!(a.clone().join(b.clone()) == b.clone().join(a.clone()), "C22: merge is not commutative");
    assert!(a.clone().join(a.clone()) == *a, "C22: merge is not idempotent");
}

/// An LWWMap over the key universe {0, 1}.  `P` encodes, per key k, the base-3 digit
/// 0 = absent, 1 = inserted, 2 = removed; clocks and values are symbolic.  The operation kind is
/// concrete per layout because a *symbolic* choice between `insert` and `remove` makes CBMC merge
/// two whole map states after the branch (a 1-key associativity check then needs > 25 GB,
/// DESIGN §8); with concrete control flow the same check takes seconds, and all 9^3 layouts are
/// enumerated (thorough tier) - equal-clock conflicts and value ties are decided by the solver.
fn lwwmap<const P: u8>() -> LWWMap<u8, Max<u8>, u8> {
    let mut m = LWWMap::default();
    let mut k = 0u8;
    let mut p = P;
    while k < 2 {
        match p % 3 {
            1 => m.insert(k, Max::from(kani::any::<u8>()), kani::any()),
            2 => m.remove(k, kani::any()),
            _ => {}
        }
        p /= 3;
        k += 1;
    }
    m
}

fn lwwset<const P: u8>() -> LWWSet<u8, u8> {
    let mut m = LWWSet::default();
    let mut k = 0u8;
    let mut p = P;
    while k < 2 {
        match p % 3 {
            1 => m.insert(k, kani::any()),
            2 => m.remove(k, kani::any()),
            _ => {}
        }
        p /= 3;
        k += 1;
    }
    m
}

fn gmap<const P: u8>() -> GMap<u8, Max<u8>> {
    let mut m = GMap::default();
    let mut k = 0u8;
    while k < 2 {
        if P & (1 << k) != 0 {
            m.insert(k, Max::from(kani::any::<u8>()));
        }
        k += 1;
    }
    m
}

fn gset<const P: u8>() -> GSet<u8> {
    let mut m = GSet::default();
    let mut k = 0u8;
    while k < 2 {
        if P & (1 << k) != 0 {
            m.insert(k);
        }
        k += 1;
    }
    m
}

macro_rules! laws_harness {
    ($name:ident, $mk:ident, $a:expr, $b:expr, $c:expr) => {
        #[kani::proof]
        #[kani::unwind(6)]
        fn $name() {
            let (a, b, c) = ($mk::<{ $a }>(), $mk::<{ $b }>(), $mk::<{ $c }>());
            laws(&a, &b, &c);
            kani::cover!(true);
        }
    };
}
include!("/verif/harness/shadow/crdt_layouts.rs");

// ---- scalars: full-width symbolic operands (u8 clocks and values), no layouts needed -------

fn any_max() -> Max<u8> {
    Max::from(kani::any::<u8>())
}
fn any_opt_max() -> Option<Max<u8>> {
    if kani::any() {
        Some(any_max())
    } else {
        None
    }
}
fn any_redactable() -> crate::redactable::Redactable<u8> {
    if kani::any() {
        crate::redactable::Redactable::Present(kani::any())
    } else {
        crate::redactable::Redactable::Redacted
    }
}

macro_rules! scalar_laws {
    ($name:ident, $gen:expr) => {
        #[kani::proof]
        #[kani::unwind(4)]
        fn $name() {
            let (a, b, c) = ($gen, $gen, $gen);
            laws(&a, &b, &c);
            kani::cover!(a != b && b != c);
        }
    };
}
scalar_laws!(c22_scalar_max, any_max());
scalar_laws!(c22_scalar_min, Min::from(kani::any::<u8>()));
scalar_laws!(c22_scalar_bool, kani::any::<bool>());
scalar_laws!(c22_scalar_option_max, any_opt_max());
scalar_laws!(c22_scalar_redactable, any_redactable());
scalar_laws!(c22_scalar_lwwreg_max, LWWReg::<Max<u8>, u8>::new(any_max(), kani::any()));
scalar_laws!(c22_scalar_lwwreg_option, LWWReg::<Option<Max<u8>>, u8>::new(any_opt_max(), kani::any()));

/// `LWWReg::set`: the register holds the value written at the greatest clock; equal clocks merge
/// the values; the clock never decreases.
#[kani::proof]
#[kani::unwind(4)]
fn c22_lwwreg_set_greatest_clock() {
    let (v0, c0, v1, c1): (u8, u8, u8, u8) = (kani::any(), kani::any(), kani::any(), kani::any());
    let mut r = LWWReg::<Max<u8>, u8>::new(Max::from(v0), c0);
    r.set(Max::from(v1), c1);
    let expect = if c1 > c0 { v1 } else if c1 < c0 { v0 } else if v1 > v0 { v1 } else { v0 };
    assert!(*r.get().get() == expect, "C22: LWWReg::set does not keep the value written at the greatest clock");
    assert!(*r.clock().get() == if c1 > c0 { c1 } else { c0 }, "C22: LWWReg clock is not the maximum");
    kani::cover!(c0 == c1 && v0 != v1);
}

/// Last-writer-wins semantics of the map: after two writes to the same key (insert or remove,
/// symbolic clocks and values, either order of arrival via merge), `get` exposes the value written
/// with the greatest clock; at equal clocks an insertion wins over a removal, and two insertions
/// merge their values.
#[kani::proof]
#[kani::unwind(6)]
fn c22_lwwmap_greatest_clock_wins() {
    let (c1, c2): (u8, u8) = (kani::any(), kani::any());
    let (v1, v2): (u8, u8) = (kani::any(), kani::any());
    let (ins1, ins2): (bool, bool) = (kani::any(), kani::any());
    let mut a: LWWMap<u8, Max<u8>, u8> = LWWMap::default();
    let mut b: LWWMap<u8, Max<u8>, u8> = LWWMap::default();
    if ins1 { a.insert(0, Max::from(v1), c1) } else { a.remove(0, c1) }
    if ins2 { b.insert(0, Max::from(v2), c2) } else { b.remove(0, c2) }
    // sequential application and merge of replicas agree
    let mut s = a.clone();
    if ins2 { s.insert(0, Max::from(v2), c2) } else { s.remove(0, c2) }
    let m = a.join(b);
    assert!(s == m, "C22: applying a write and merging a replica that applied it differ");
    let expect: Option<u8> = if c1 > c2 {
        if ins1 { Some(v1) } else { None }
    } else if c2 > c1 {
        if ins2 { Some(v2) } else { None }
    } else {
        match (ins1, ins2) {
            (true, true) => Some(if v1 > v2 { v1 } else { v2 }),
            (true, false) => Some(v1),
            (false, true) => Some(v2),
            (false, false) => None,
        }
    };
    assert!(m.get(&0).map(|v| *v.get()) == expect, "C22: LWWMap does not expose the value written with the greatest clock / insertion does not win at equal clocks");
    assert!(m.contains_key(&0) == expect.is_some());
    kani::cover!(c1 == c2 && ins1 != ins2);
    kani::cover!(c1 > c2 && !ins1 && ins2);
}

#[kani::proof]
#[kani::unwind(6)]
fn c22_lwwset_insert_wins_at_equal_clock() {
    let (c1, c2): (u8, u8) = (kani::any(), kani::any());
    let (ins1, ins2): (bool, bool) = (kani::any(), kani::any());
    let mut a: LWWSet<u8, u8> = LWWSet::default();
    let mut b: LWWSet<u8, u8> = LWWSet::default();
    if ins1 { a.insert(7, c1) } else { a.remove(7, c1) }
    if ins2 { b.insert(7, c2) } else { b.remove(7, c2) }
    let m = a.join(b);
    let expect = if c1 > c2 { ins1 } else if c2 > c1 { ins2 } else { ins1 || ins2 };
    assert!(m.contains(&7) == expect, "C22: LWWSet does not follow greatest clock / insertion wins at equal clocks");
    kani::cover!(c1 == c2 && ins1 != ins2);
}

#[cfg(test)]
mod replay {
    use super::*;
    include!("/verif/replays/active/shadow_crdt.rs");
}


/// Frame property for 2-key maps: merging is *pointwise* - for each key, the merged map holds
/// what merging the two single-key restrictions holds.  Together with the single-key laws above
/// this gives the laws for maps over any key set (each key's register evolves independently);
/// checking associativity directly on 2-key maps exhausts 25 GB (DESIGN §8).
fn lwwmap_from(p: u8, cv: &[(u8, u8); 2], only: Option<u8>) -> LWWMap<u8, Max<u8>, u8> {
    let mut m = LWWMap::default();
    let mut k = 0u8;
    let mut p = p;
    while k < 2 {
        if only.is_none() || only == Some(k) {
            match p % 3 {
                1 => m.insert(k, Max::from(cv[k as usize].1), cv[k as usize].0),
                2 => m.remove(k, cv[k as usize].0),
                _ => {}
            }
        }
        p /= 3;
        k += 1;
    }
    m
}

fn lwwmap_pointwise<const A: u8, const B: u8, const KEY: u8>() {
    let ca: [(u8, u8); 2] = kani::any();
    let cb: [(u8, u8); 2] = kani::any();
    let m = lwwmap_from(A, &ca, None).join(lwwmap_from(B, &cb, None));
    let r = lwwmap_from(A, &ca, Some(KEY)).join(lwwmap_from(B, &cb, Some(KEY)));
    assert!(m.get(&KEY) == r.get(&KEY), "C22: merging maps is not pointwise in the keys");
    assert!(m.contains_key(&KEY) == r.contains_key(&KEY));
    kani::cover!(true);
}

macro_rules! pointwise_harness {
    ($name:ident, $a:expr, $b:expr, $k:expr) => {
        #[kani::proof]
        #[kani::unwind(5)]
        fn $name() {
            lwwmap_pointwise::<{ $a }, { $b }, { $k }>()
        }
    };
}
include!("/verif/harness/shadow/crdt_pointwise_layouts.rs");

/// The same frame property for the grow-only map (presence bits per key, symbolic values) - the
/// code path `GMap::merge` / `GMap::insert` that all four map/set kinds share.
fn gmap_from(p: u8, v: &[u8; 2], only: Option<u8>) -> GMap<u8, Max<u8>> {
    let mut m = GMap::default();
    let mut k = 0u8;
    while k < 2 {
        if p & (1 << k) != 0 && (only.is_none() || only == Some(k)) {
            m.insert(k, Max::from(v[k as usize]));
        }
        k += 1;
    }
    m
}

fn gmap_pointwise<const A: u8, const B: u8, const KEY: u8>() {
    let va: [u8; 2] = kani::any();
    let vb: [u8; 2] = kani::any();
    let m = gmap_from(A, &va, None).join(gmap_from(B, &vb, None));
    let r = gmap_from(A, &va, Some(KEY)).join(gmap_from(B, &vb, Some(KEY)));
    assert!(m.get(&KEY) == r.get(&KEY), "C22: merging grow-only maps is not pointwise in the keys");
    let other = 1 - KEY;
    assert!(m.contains_key(&other) == ((A | B) & (1 << other) != 0), "C22: merge lost or invented a key");
    kani::cover!(true);
}

macro_rules! gmap_pointwise_harness {
    ($name:ident, $a:expr, $b:expr, $k:expr) => {
        #[kani::proof]
        #[kani::unwind(5)]
        fn $name() {
            gmap_pointwise::<{ $a }, { $b }, { $k }>()
        }
    };
}
gmap_pointwise_harness!(c22_gmap_pointwise_33_key0, 3, 3, 0);
gmap_pointwise_harness!(c22_gmap_pointwise_33_key1, 3, 3, 1);
gmap_pointwise_harness!(c22_gmap_pointwise_13_key0, 1, 3, 0);
gmap_pointwise_harness!(c22_gmap_pointwise_32_key1, 3, 2, 1);
gmap_pointwise_harness!(c22_gmap_pointwise_12_key0, 1, 2, 0);
gmap_pointwise_harness!(c22_gmap_pointwise_21_key1, 2, 1, 1);
