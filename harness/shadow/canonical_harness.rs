//! C03 — the canonical head is backed by the delegate threshold.
//! Compiled inside the shim crate around the shadow copy of `git/canonical.rs`.
//! Symbolic: a commit graph on 4 commits (any parent relation, acyclic by construction), the tip
//! of each of up to 4 delegates (several delegates on one commit included), the threshold, and
//! which best common ancestor `merge_base` returns when there are several.
#![allow(dead_code, unused_imports)]
use crate::git::canonical::{Canonical, QuorumError};
use crate::git::raw::{self, Repository};
use crate::git::Oid;
use crate::prelude::Did;
use crate::vcoll::Id;

/// Arbitrary DAG on commits 0..4: `parent[i]` = symbolic subset of {0..i-1}; ancestor sets are
/// the reflexive-transitive closure (commit ids are topologically ordered, which loses no
/// generality: the algorithm never compares ids except for map ordering - and every ordering of a
/// given shape is reached by relabelling within the symbolic parent relation's reach).
fn any_repo() -> Repository {
    let mut anc = [0u8; 4];
    let mut i = 0usize;
    while i < 4 {
        let parents: u8 = kani::any();
        let parents = parents & ((1u8 << i) - 1);
        let mut a = 1u8 << i;
        let mut j = 0usize;
        while j < i {
            if parents & (1 << j) != 0 {
                a |= anc[j];
            }
            j += 1;
        }
        anc[i] = a;
        i += 1;
    }
    let pick: [u8; 16] = kani::any();
    let repo = Repository { anc, pick };
    // merge_base may return any best common ancestor
    let mut a = 0u8;
    while a < 4 {
        let mut b = 0u8;
        while b < 4 {
            let best = repo.best_common(raw::Oid(a), raw::Oid(b));
            let p = repo.pick[(a * 4 + b) as usize];
            kani::assume(best == 0 || (p < 4 && best & (1 << p) != 0));
            b += 1;
        }
        a += 1;
    }
    repo
}

fn oid(i: u8) -> Oid {
    Oid::from(raw::Oid(i))
}

/// Number of distinct delegates whose tip is `t` or descends from `t`.
fn support(repo: &Repository, tips: &[Option<u8>; 4], t: u8) -> usize {
    let mut n = 0;
    let mut d = 0;
    while d < 4 {
        if let Some(x) = tips[d] {
            if repo.anc[x as usize] & (1 << t) != 0 {
                n += 1;
            }
        }
        d += 1;
    }
    n
}

fn is_tip(tips: &[Option<u8>; 4], t: u8) -> bool {
    tips.iter().any(|x| *x == Some(t))
}

fn quorum_property<const N: usize>() {
    let repo = any_repo();
    let mut tips: [Option<u8>; 4] = [None; 4];
    let mut c = Canonical::verif_new(kani::any());
    let mut d = 0usize;
    while d < N {
        let t: u8 = kani::any();
        kani::assume(t < 4);
        tips[d] = Some(t);
        c.modify_vote(Did(Id(d as u8)), oid(t));
        d += 1;
    }
    let threshold = c.verif_threshold();
    kani::assume(threshold >= 1 && threshold <= N);

    // sufficiently supported tips
    let mut ok_tips = 0u8;
    let mut t = 0u8;
    while t < 4 {
        if is_tip(&tips, t) && support(&repo, &tips, t) >= threshold {
            ok_tips |= 1 << t;
        }
        t += 1;
    }

    match c.quorum(&repo) {
        Ok(h) => {
            let h = (*h).0;
            assert!(is_tip(&tips, h), "C03: the canonical head is not one of the delegate tips");
            assert!(
                support(&repo, &tips, h) >= threshold,
                "C03: the canonical head is in the history of fewer than `threshold` distinct delegates"
            );
            let mut t = 0u8;
            while t < 4 {
                if t != h && ok_tips & (1 << t) != 0 {
                    assert!(
                        repo.anc[t as usize] & (1 << h) == 0,
                        "C03: another sufficiently supported tip descends from the returned head"
                    );
                    // ... and a head is only returned when it descends from all of them: mutually
                    // divergent sufficiently supported tips must yield an error, not a head
                    assert!(
                        repo.anc[h as usize] & (1 << t) != 0,
                        "C03: a head was returned although a sufficiently supported tip diverges from it"
                    );
                }
                t += 1;
            }
            kani::cover!(threshold >= 2 && ok_tips != 0);
        }
        Err(QuorumError::NoCandidates(_)) => {
            assert!(ok_tips == 0, "C03: NoCandidates although a tip has enough distinct supporters");
        }
        Err(QuorumError::Diverging(x)) => {
            // an error instead of a head is only justified when the sufficiently supported tips
            // are not totally ordered by ancestry
            let mut total = true;
            let mut a = 0u8;
            while a < 4 {
                let mut b = 0u8;
                while b < 4 {
                    if ok_tips & (1 << a) != 0 && ok_tips & (1 << b) != 0 {
                        let ab = repo.anc[a as usize] & (1 << b) != 0;
                        let ba = repo.anc[b as usize] & (1 << a) != 0;
                        if !ab && !ba {
                            total = false;
                        }
                    }
                    b += 1;
                }
                a += 1;
            }
            assert!(!total, "C03: Diverging reported although the sufficiently supported tips form a chain");
            std::mem::forget(x);
            kani::cover!(true);
        }
        Err(QuorumError::Git(e)) => {
            // merge_base only fails when two tips share no history at all
            std::mem::forget(e);
        }
    }
    // a head must be returned when the sufficiently supported tips form a non-empty chain ... is
    // implied by the three assertions above together with the result being one of the four cases.
}

#[kani::proof]
#[kani::unwind(6)]
fn c03_quorum_2_delegates() {
    quorum_property::<2>()
}

#[kani::proof]
#[kani::unwind(6)]
fn c03_quorum_3_delegates() {
    quorum_property::<3>()
}

#[kani::proof]
#[kani::unwind(6)]
fn c03_quorum_4_delegates() {
    quorum_property::<4>()
}

#[cfg(test)]
mod replay {
    use super::*;
    include!("/verif/replays/active/shadow_canonical.rs");
}
