//! `vcoll` (hash flavour): two-slot models of `std::collections::{HashMap, HashSet}` with the
//! observable semantics of the API subset used by `service/limiter.rs` (`contains`, `collect`,
//! `entry().or_insert_with()`, `is_empty`, `len`, `get`).  Lookup is by `Eq` over the slots; the
//! capacity (2 entries) is enough for the harnesses and exceeding it is an assertion failure.
//! std's hash containers are not encodable under CBMC (RandomState + SipHash, DESIGN §8).
#![allow(dead_code)]

#[derive(Debug, Clone)]
pub struct HashSet<T> {
    a: Option<T>,
    b: Option<T>,
}
impl<T> Default for HashSet<T> {
    fn default() -> Self {
        Self { a: None, b: None }
    }
}
impl<T: Eq> HashSet<T> {
    pub fn new() -> Self {
        Self::default()
    }
    pub fn contains(&self, t: &T) -> bool {
        self.a.as_ref() == Some(t) || self.b.as_ref() == Some(t)
    }
    pub fn insert(&mut self, t: T) -> bool {
        if self.contains(&t) {
            return false;
        }
        if self.a.is_none() {
            self.a = Some(t);
        } else if self.b.is_none() {
            self.b = Some(t);
        } else {
            panic!("vcoll: HashSet capacity exceeded (harness larger than the shadow containers)");
        }
        true
    }
    pub fn len(&self) -> usize {
        self.a.is_some() as usize + self.b.is_some() as usize
    }
    pub fn is_empty(&self) -> bool {
        self.len() == 0
    }
}
impl<T: Eq> FromIterator<T> for HashSet<T> {
    fn from_iter<I: IntoIterator<Item = T>>(it: I) -> Self {
        let mut s = Self::default();
        for t in it {
            s.insert(t);
        }
        s
    }
}

#[derive(Debug, Clone)]
pub struct HashMap<K, V> {
    s0: Option<(K, V)>,
    s1: Option<(K, V)>,
}
impl<K, V> Default for HashMap<K, V> {
    fn default() -> Self {
        Self { s0: None, s1: None }
    }
}
impl<K: Eq, V> HashMap<K, V> {
    pub fn new() -> Self {
        Self::default()
    }
    pub fn len(&self) -> usize {
        self.s0.is_some() as usize + self.s1.is_some() as usize
    }
    pub fn is_empty(&self) -> bool {
        self.len() == 0
    }
    pub fn get(&self, k: &K) -> Option<&V> {
        match (&self.s0, &self.s1) {
            (Some((k0, v)), _) if k0 == k => Some(v),
            (_, Some((k1, v))) if k1 == k => Some(v),
            _ => None,
        }
    }
    pub fn contains_key(&self, k: &K) -> bool {
        self.get(k).is_some()
    }
    pub fn get_mut(&mut self, k: &K) -> Option<&mut V> {
        let in0 = matches!(&self.s0, Some((k0, _)) if k0 == k);
        if in0 {
            return self.s0.as_mut().map(|(_, v)| v);
        }
        let in1 = matches!(&self.s1, Some((k1, _)) if k1 == k);
        if in1 {
            return self.s1.as_mut().map(|(_, v)| v);
        }
        None
    }
    pub fn insert(&mut self, k: K, v: V) -> Option<V> {
        if let Some(slot) = self.get_mut(&k) {
            return Some(std::mem::replace(slot, v));
        }
        if self.s0.is_none() {
            self.s0 = Some((k, v));
        } else if self.s1.is_none() {
            self.s1 = Some((k, v));
        } else {
            panic!("vcoll: HashMap capacity exceeded (harness larger than the shadow containers)");
        }
        None
    }
    pub fn remove(&mut self, k: &K) -> Option<V> {
        if matches!(&self.s0, Some((k0, _)) if k0 == k) {
            return self.s0.take().map(|(_, v)| v);
        }
        if matches!(&self.s1, Some((k1, _)) if k1 == k) {
            return self.s1.take().map(|(_, v)| v);
        }
        None
    }
    pub fn entry(&mut self, k: K) -> Entry<'_, K, V> {
        Entry { m: self, k }
    }
}
pub struct Entry<'a, K, V> {
    m: &'a mut HashMap<K, V>,
    k: K,
}
impl<'a, K: Eq, V> Entry<'a, K, V> {
    pub fn or_insert_with<F: FnOnce() -> V>(self, f: F) -> &'a mut V {
        let in0 = matches!(&self.m.s0, Some((k0, _)) if *k0 == self.k);
        let in1 = matches!(&self.m.s1, Some((k1, _)) if *k1 == self.k);
        if !in0 && !in1 {
            if self.m.s0.is_none() {
                self.m.s0 = Some((self.k, f()));
                return match &mut self.m.s0 {
                    Some((_, v)) => v,
                    None => unreachable!(),
                };
            } else if self.m.s1.is_none() {
                self.m.s1 = Some((self.k, f()));
                return match &mut self.m.s1 {
                    Some((_, v)) => v,
                    None => unreachable!(),
                };
            } else {
                panic!("vcoll: HashMap capacity exceeded (harness larger than the shadow containers)");
            }
        }
        if in0 {
            match &mut self.m.s0 {
                Some((_, v)) => v,
                None => unreachable!(),
            }
        } else {
            match &mut self.m.s1 {
                Some((_, v)) => v,
                None => unreachable!(),
            }
        }
    }
}
