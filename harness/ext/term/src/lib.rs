//! C26 — terminal truncation stays within the width and never panics.
//! External harness crate over the public API of /repo's `radicle-term` (real
//! `unicode-segmentation` and `unicode-display-width` tables).
#![allow(dead_code, unused_imports)]
#[cfg(kani)]
mod harness {
    use radicle_term::cell::Cell;
    use radicle_term::{Label, Line};

    /// The alphabet: narrow, space, multi-byte white space (2 and 3 bytes), wide CJK, combining
    /// mark, zero-width space, zero-width joiner, wide emoji, tab, text-presentation symbol and the
    /// emoji variation selector (a cluster can be wide only because of it).
    const ALPHABET: [char; 12] = ['a', ' ', '\u{a0}', '\u{3000}', '漢', '\u{301}', '\u{200b}', '\u{200d}', '👍', '\t', '\u{2764}', '\u{fe0f}'];

    fn any_char() -> char {
        let i: u8 = kani::any();
        kani::assume((i as usize) < ALPHABET.len());
        ALPHABET[i as usize]
    }

    fn any_text<const N: usize>() -> String {
        let mut s = String::new();
        let mut i = 0;
        while i < N {
            s.push(any_char());
            i += 1;
        }
        s
    }

    fn delim(i: u8) -> &'static str {
        match i {
            0 => "",
            1 => "…",
            _ => "..",
        }
    }

    /// Truncating any `N`-character text over the alphabet to any width 0..=6 with any of the
    /// three delimiters never panics and yields text no wider than requested.
    fn str_truncate<const N: usize, const D: u8>() {
        let s = any_text::<N>();
        let width: usize = kani::any();
        kani::assume(width <= 6);
        let out = s.as_str().truncate(width, delim(D));
        assert!(Cell::width(out.as_str()) <= width, "C26: truncated text is wider than the requested width");
        kani::cover!(out.len() < s.len());
        std::mem::forget(out);
        std::mem::forget(s);
    }

    macro_rules! st {
        ($name:ident, $n:expr, $d:expr) => {
            #[kani::proof]
            #[kani::unwind(12)]
            fn $name() {
                str_truncate::<{ $n }, { $d }>()
            }
        };
    }
    st!(c26_str_truncate_1_empty, 1, 0);
    st!(c26_str_truncate_1_ellipsis, 1, 1);
    st!(c26_str_truncate_1_dots, 1, 2);
    st!(c26_str_truncate_2_empty, 2, 0);
    st!(c26_str_truncate_2_ellipsis, 2, 1);
    st!(c26_str_truncate_2_dots, 2, 2);
    st!(c26_str_truncate_3_empty, 3, 0);
    st!(c26_str_truncate_3_ellipsis, 3, 1);
    st!(c26_str_truncate_3_dots, 3, 2);

    /// `Line::truncate` on a line of two labels terminates (the loop is fully unwound within the
    /// bound, checked by the unwinding assertion) and yields a line no wider than requested.
    fn line_truncate<const N: usize, const D: u8>() {
        let a = any_text::<N>();
        let b = any_text::<N>();
        let width: usize = kani::any();
        kani::assume(width <= 4);
        let mut line = Line::new(Label::new(a.as_str())).item(Label::new(b.as_str()));
        line.truncate(width, delim(D));
        assert!(line.width() <= width, "C26: truncated line is wider than the requested width");
        kani::cover!(true);
        std::mem::forget(line);
    }

    macro_rules! lt {
        ($name:ident, $n:expr, $d:expr) => {
            #[kani::proof]
            #[kani::unwind(12)]
            fn $name() {
                line_truncate::<{ $n }, { $d }>()
            }
        };
    }
    lt!(c26_line_truncate_1_empty, 1, 0);
    lt!(c26_line_truncate_1_ellipsis, 1, 1);
    lt!(c26_line_truncate_2_ellipsis, 2, 1);

    #[cfg(test)]
    mod replay {
        use super::*;
        include!("/verif/replays/active/ext_term.rs");
    }
}
