//! External harness crate over the public API of /repo's `radicle` crate (no source hooks):
//! C19 (identity document validation kernel) and C21 (alias / user agent text round-trips).
#![allow(dead_code, unused_imports)]
#[cfg(kani)]
mod c19 {
    use radicle::crypto::PublicKey;
    use radicle::identity::doc::{Delegates, Threshold, Version, MAX_DELEGATES};
    use radicle::identity::doc::IDENTITY_VERSION;
    use radicle::identity::Did;

    fn key(i: u8) -> Did {
        let mut k = [0u8; 32];
        k[0] = i;
        k[31] = i.wrapping_mul(7);
        Did::from(PublicKey::from(k))
    }

    /// `Delegates::new` on a list whose *equality pattern* is given by `PAT` (entry i is key
    /// `PAT[i]`; every set partition of up to 4 entries over 3 keys is a harness instance): the
    /// result is the list of first occurrences - non-empty, pairwise distinct, same members - and
    /// only the empty list is rejected; `Threshold::new` on the result accepts exactly
    /// 1..=#delegates, for every usize threshold.  (A symbolic choice of keys costs > 10 min of
    /// symbolic execution per list length, DESIGN §8; the threshold stays fully symbolic.)
    fn delegates_new(pat: &[u8]) {
        let len = pat.len();
        let mut input = Vec::with_capacity(len);
        let mut distinct = 0usize;
        let mut seen = [false; 3];
        let mut i = 0;
        while i < len {
            input.push(key(pat[i]));
            if !seen[pat[i] as usize] {
                seen[pat[i] as usize] = true;
                distinct += 1;
            }
            i += 1;
        }
        match Delegates::new(input) {
            Ok(ds) => {
                assert!(len >= 1, "C19: empty delegate list accepted");
                assert!(ds.len() == distinct, "C19: duplicate delegate kept or distinct delegate dropped");
                assert!(ds.len() >= 1 && ds.len() <= MAX_DELEGATES, "C19: delegate count outside 1..=255");
                assert!(*ds.first() == key(pat[0]));
                let t: usize = kani::any();
                match Threshold::new(t, &ds) {
                    Ok(th) => {
                        assert!(t >= 1 && t <= ds.len(), "C19: threshold outside 1..=#delegates accepted");
                        assert!(usize::from(th) == t);
                    }
                    Err(e) => {
                        assert!(t == 0 || t > ds.len(), "C19: valid threshold rejected");
                        std::mem::forget(e);
                    }
                }
                std::mem::forget(ds);
            }
            Err(e) => {
                assert!(len == 0, "C19: non-empty delegate list rejected");
                std::mem::forget(e);
            }
        }
        kani::cover!(true);
    }

    macro_rules! dn {
        ($name:ident, $pat:expr) => {
            #[kani::proof]
            #[kani::unwind(34)]
            fn $name() {
                delegates_new(&$pat)
            }
        };
    }
    dn!(c19_delegates_empty, [0u8; 0]);
    dn!(c19_delegates_0, [0u8]);
    dn!(c19_delegates_00, [0u8, 0]);
    dn!(c19_delegates_01, [0u8, 1]);
    dn!(c19_delegates_000, [0u8, 0, 0]);
    dn!(c19_delegates_001, [0u8, 0, 1]);
    dn!(c19_delegates_010, [0u8, 1, 0]);
    dn!(c19_delegates_011, [0u8, 1, 1]);
    dn!(c19_delegates_012, [0u8, 1, 2]);
    dn!(c19_delegates_0120, [0u8, 1, 2, 0]);
    dn!(c19_delegates_0011, [0u8, 0, 1, 1]);
    dn!(c19_delegates_0101, [0u8, 1, 0, 1]);
    dn!(c19_delegates_0112, [0u8, 1, 1, 2]);

    /// The whole validation funnel `RawDoc::verified` (what `TryFrom<RawDoc> for Doc`, JSON loading
    /// and `Doc::edit` round-trips all go through) on a raw document whose delegate list has the
    /// equality pattern `pat` and whose threshold is any usize: a `Doc` comes back only with
    /// pairwise-distinct delegates and `1 <= threshold <= #distinct delegates`, carries exactly
    /// the given threshold, and every raw document satisfying that is accepted.
    fn rawdoc_verified(pat: &[u8]) {
        use radicle::identity::doc::RawDoc;
        let len = pat.len();
        let mut input = Vec::with_capacity(len);
        let mut distinct = 0usize;
        let mut seen = [false; 3];
        let mut i = 0;
        while i < len {
            input.push(key(pat[i]));
            if !seen[pat[i] as usize] {
                seen[pat[i] as usize] = true;
                distinct += 1;
            }
            i += 1;
        }
        let t: usize = kani::any();
        let mut accepted = false;
        match RawDoc::verif_raw(input, t).verified() {
            Ok(doc) => {
                accepted = true;
                assert!(doc.delegates().len() == distinct, "C19: verified document keeps a duplicate delegate or drops a distinct one");
                assert!(doc.threshold() >= 1, "C19: verified document with threshold 0");
                assert!(doc.threshold() <= doc.delegates().len(), "C19: verified document whose threshold exceeds its distinct delegates");
                assert!(doc.threshold() == t, "C19: verified document carries a different threshold");
                std::mem::forget(doc);
            }
            Err(e) => {
                assert!(len == 0 || t == 0 || t > distinct, "C19: valid raw document rejected");
                std::mem::forget(e);
            }
        }
        // vacuity witness: the acceptance branch is reached with the largest valid threshold
        kani::cover!(len == 0 || (accepted && t == distinct));
    }

    macro_rules! rv {
        ($name:ident, $pat:expr) => {
            #[kani::proof]
            #[kani::unwind(34)]
            fn $name() {
                rawdoc_verified(&$pat)
            }
        };
    }
    rv!(c19_rawdoc_empty, [0u8; 0]);
    rv!(c19_rawdoc_0, [0u8]);
    rv!(c19_rawdoc_00, [0u8, 0]);
    rv!(c19_rawdoc_01, [0u8, 1]);
    rv!(c19_rawdoc_001, [0u8, 0, 1]);
    rv!(c19_rawdoc_010, [0u8, 1, 0]);
    rv!(c19_rawdoc_012, [0u8, 1, 2]);
    rv!(c19_rawdoc_0120, [0u8, 1, 2, 0]);
    rv!(c19_rawdoc_0011, [0u8, 0, 1, 1]);
    rv!(c19_rawdoc_000, [0u8, 0, 0]);
    rv!(c19_rawdoc_011, [0u8, 1, 1]);
    rv!(c19_rawdoc_0101, [0u8, 1, 0, 1]);
    rv!(c19_rawdoc_0112, [0u8, 1, 1, 2]);

    /// Supported versions are exactly 1..=IDENTITY_VERSION, for every u32.
    #[kani::proof]
    fn c19_version_new() {
        let n: u32 = kani::any();
        let latest: u32 = IDENTITY_VERSION.into();
        match Version::new(n) {
            Ok(v) => {
                assert!(n >= 1 && n <= latest, "C19: unsupported document version accepted");
                assert!(u32::from(v) == n);
                assert!(Version::is_valid_version(&n));
            }
            Err(e) => {
                assert!(n == 0 || n > latest, "C19: supported document version rejected");
                assert!(!Version::is_valid_version(&n));
                std::mem::forget(e);
            }
        }
        kani::cover!(n == 1);
    }

    #[cfg(test)]
    mod replay {
        use super::*;
        include!("/verif/replays/active/ext_radicle_c19.rs");
    }
}

#[cfg(kani)]
mod c21 {
    use radicle::node::{Alias, UserAgent};
    use std::str::FromStr;

    /// `N` symbolic bytes that form valid UTF-8 (checked by the real `str::from_utf8`): parsing
    /// never panics; an accepted alias prints to exactly the input and re-parses to itself;
    /// empty input, control characters and white space are rejected.
    fn alias_roundtrip<const N: usize>() {
        let bytes: [u8; N] = kani::any();
        let Ok(s) = std::str::from_utf8(&bytes) else { return };
        match Alias::from_str(s) {
            Ok(a) => {
                assert!(a.as_str() == s, "C21: alias text changed by parsing (print . parse is not the identity)");
                assert!(N >= 1 && N <= 32);
                let mut i = 0;
                while i < N {
                    // ASCII control and white space never survive
                    assert!(!(bytes[i] < 0x21 || bytes[i] == 0x7f), "C21: control or white-space byte accepted in an alias");
                    i += 1;
                }
                match Alias::from_str(a.as_str()) {
                    Ok(b) => assert!(a == b, "C21: alias does not re-parse to itself"),
                    Err(e) => {
                        std::mem::forget(e);
                        panic!("C21: printed alias does not parse")
                    }
                }
                kani::cover!(N == 1 || bytes[0] > 0x7f); // multi-byte character accepted
                std::mem::forget(a);
            }
            Err(e) => {
                std::mem::forget(e);
                // all-printable-ASCII non-empty input within the limit is a valid alias
                let mut ok = N >= 1 && N <= 32;
                let mut i = 0;
                while i < N {
                    if !(bytes[i] > 0x20 && bytes[i] < 0x7f) {
                        ok = false;
                    }
                    i += 1;
                }
                assert!(!ok, "C21: printable ASCII alias rejected");
            }
        }
    }

    #[kani::proof]
    #[kani::unwind(8)]
    fn c21_alias_len1() {
        alias_roundtrip::<1>()
    }
    #[kani::proof]
    #[kani::unwind(8)]
    fn c21_alias_len2() {
        alias_roundtrip::<2>()
    }
    #[kani::proof]
    #[kani::unwind(8)]
    fn c21_alias_len3() {
        alias_roundtrip::<3>()
    }
    #[kani::proof]
    #[kani::unwind(8)]
    fn c21_alias_len4() {
        alias_roundtrip::<4>()
    }

    /// Length limit: 30 fixed bytes + `N` symbolic printable bytes.
    fn alias_limit<const N: usize>() {
        let tail: [u8; N] = kani::any();
        let mut s = String::from("aaaaaaaaaaaaaaaaaaaaaaaaaaaaaa"); // 30
        let mut i = 0;
        while i < N {
            kani::assume(tail[i] > 0x20 && tail[i] < 0x7f);
            s.push(tail[i] as char);
            i += 1;
        }
        let r = Alias::from_str(&s);
        assert!(r.is_ok() == (30 + N <= 32), "C21: alias length limit is not 32 bytes");
        kani::cover!(true);
        std::mem::forget(r);
        std::mem::forget(s);
    }
    #[kani::proof]
    #[kani::unwind(40)]
    fn c21_alias_limit_32() {
        alias_limit::<2>()
    }
    #[kani::proof]
    #[kani::unwind(40)]
    fn c21_alias_limit_33() {
        alias_limit::<3>()
    }

    /// User agent `/<client>:<version>/`-style strings: parsing never panics, an accepted agent
    /// prints to exactly the input.
    fn user_agent<const N: usize>() {
        let mut bytes: [u8; N] = kani::any();
        bytes[0] = b'/';
        bytes[N - 1] = b'/';
        let Ok(s) = std::str::from_utf8(&bytes) else { return };
        match UserAgent::from_str(s) {
            Ok(a) => {
                assert!(a.as_str() == s, "C21: user agent text changed by parsing");
                assert!(a.to_string() == s);
                kani::cover!(true);
                std::mem::forget(a);
            }
            Err(e) => std::mem::forget(e),
        }
    }
    /// `multibase::decode` (base-58 big-number loops; makes the Kani compiler panic, DESIGN §8) is
    /// replaced by an arbitrary answer: an error, or a decoded payload of `LEN` symbolic bytes.  What
    /// is checked is the rest of `PublicKey::from_str` / `Did::decode`: whatever the base layer
    /// decodes to, parsing returns a key or an error and never panics; a key is returned only for a
    /// 34-byte payload with the ed25519 multicodec prefix, and then it is exactly those 32 bytes.
    static mut PAYLOAD_LEN: usize = 0;
    static mut PAYLOAD: [u8; 34] = [0; 34];
    static mut DECODE_FAILS: bool = false;

    fn multibase_decode_stub<T: AsRef<str>>(_input: T) -> multibase::Result<(multibase::Base, Vec<u8>)> {
        if unsafe { DECODE_FAILS } {
            return Err(multibase::Error::InvalidBaseString);
        }
        let n = unsafe { PAYLOAD_LEN };
        let p = unsafe { PAYLOAD };
        // concrete length per harness instance, symbolic content
        let mut v = Vec::with_capacity(34);
        let mut i = 0;
        while i < n {
            v.push(p[i]);
            i += 1;
        }
        Ok((multibase::Base::Base58Btc, v))
    }

    fn public_key_parse<const LEN: usize>() {
        use radicle::crypto::PublicKey;
        let p: [u8; 34] = kani::any();
        unsafe {
            PAYLOAD = p;
            PAYLOAD_LEN = LEN;
            DECODE_FAILS = kani::any();
        }
        // Under the model checker the text is irrelevant (the base layer is stubbed); in a native
        // replay (stubs are not applied) the text is the real multibase encoding of the same payload,
        // or a string the real base layer rejects.
        #[cfg(not(test))]
        let text = String::from("z");
        #[cfg(test)]
        let text = if unsafe { DECODE_FAILS } { String::from("!") } else { multibase::encode(multibase::Base::Base58Btc, &p[..LEN]) };
        let r = PublicKey::from_str(&text);
        std::mem::forget(text);
        match r {
            Ok(k) => {
                assert!(LEN == 34 && p[0] == 0xED && p[1] == 0x01 && unsafe { !DECODE_FAILS }, "C21: a public key was parsed from a payload that is not multicodec ed25519 + 32 bytes");
                let mut i = 0;
                while i < 32 {
                    assert!(k.as_ref()[i] == p[2 + i], "C21: parsed key bytes differ from the decoded payload");
                    i += 1;
                }
            }
            Err(e) => std::mem::forget(e),
        }
        kani::cover!(true);
    }

    macro_rules! pk {
        ($name:ident, $len:expr) => {
            #[kani::proof]
            #[kani::unwind(40)]
            #[kani::stub(multibase::decode, multibase_decode_stub)]
            fn $name() {
                public_key_parse::<{ $len }>()
            }
        };
    }
    /// The same through `Did::decode` ("did:key:" + multibase key).
    fn did_parse<const LEN: usize>() {
        use radicle::identity::Did;
        let p: [u8; 34] = kani::any();
        unsafe {
            PAYLOAD = p;
            PAYLOAD_LEN = LEN;
            DECODE_FAILS = kani::any();
        }
        #[cfg(not(test))]
        let text = String::from("did:key:z");
        #[cfg(test)]
        let text = if unsafe { DECODE_FAILS } { String::from("did:key:!") } else { format!("did:key:{}", multibase::encode(multibase::Base::Base58Btc, &p[..LEN])) };
        let r = Did::decode(&text);
        std::mem::forget(text);
        match r {
            Ok(d) => {
                assert!(LEN == 34 && p[0] == 0xED && p[1] == 0x01 && unsafe { !DECODE_FAILS }, "C21: a DID was parsed from a payload that is not multicodec ed25519 + 32 bytes");
                let mut i = 0;
                while i < 32 {
                    assert!(d.as_key().as_ref()[i] == p[2 + i], "C21: parsed DID key bytes differ from the decoded payload");
                    i += 1;
                }
            }
            Err(e) => std::mem::forget(e),
        }
        kani::cover!(true);
    }
    macro_rules! did {
        ($name:ident, $len:expr) => {
            #[kani::proof]
            #[kani::unwind(40)]
            #[kani::stub(multibase::decode, multibase_decode_stub)]
            fn $name() {
                did_parse::<{ $len }>()
            }
        };
    }
    did!(c21_did_payload_len1, 1);
    did!(c21_did_payload_len34, 34);

    pk!(c21_public_key_payload_len0, 0);
    pk!(c21_public_key_payload_len1, 1);
    pk!(c21_public_key_payload_len2, 2);
    pk!(c21_public_key_payload_len3, 3);
    pk!(c21_public_key_payload_len33, 33);
    pk!(c21_public_key_payload_len34, 34);

    #[kani::proof]
    #[kani::unwind(10)]
    fn c21_user_agent_len5() {
        user_agent::<5>()
    }
    #[kani::proof]
    #[kani::unwind(10)]
    fn c21_user_agent_len6() {
        user_agent::<6>()
    }
    #[kani::proof]
    #[kani::unwind(10)]
    fn c21_user_agent_len3() {
        user_agent::<3>()
    }

    #[cfg(test)]
    mod replay {
        use super::*;
        include!("/verif/replays/active/ext_radicle_c21.rs");
    }
}
