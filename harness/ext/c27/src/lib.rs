//! C27 — SSH agent client never panics; key encodings round-trip.
//! External harness crate: path dependencies on /repo's radicle-ssh and radicle-crypto (public API
//! only, no source hooks).
#![allow(dead_code, unused_imports)]
#[cfg(kani)]
mod harness {
    use radicle_crypto::{PublicKey, Signature};
    use radicle_ssh::agent::client::{AgentClient, ClientStream, Error};
    use radicle_ssh::encoding::{Buffer, Encodable, Encoding, Reader};
    use std::path::Path;

    /// Stub for `String::from_utf8_lossy`, which only builds the text of `UnknownAlgorithm` errors
    /// (UTF-8 chunking over symbolic bytes dominates the symbolic execution otherwise).
    fn lossy_stub(_v: &[u8]) -> std::borrow::Cow<'_, str> {
        std::borrow::Cow::Borrowed("")
    }

    /// Stub for zeroize's private `volatile_set` (wipes a vector's spare capacity byte by byte in
    /// `Buffer`'s destructor, on every exit path): no-op.  The wiping loops multiply with the number
    /// of early returns and dominate the symbolic execution otherwise; their memory effect is not
    /// observable by the property.
    fn volatile_set_stub<T: Copy + Sized>(_dst: *mut T, _src: T, _count: usize) {}

    /// An agent that answers every request with the given bytes.
    struct Canned<const N: usize>([u8; N]);

    impl<const N: usize> ClientStream for Canned<N> {
        fn request(&mut self, _req: &[u8]) -> Result<Buffer, Error> {
            Ok(self.0.to_vec().into())
        }
        fn connect<P>(_path: P) -> Result<AgentClient<Self>, Error>
        where
            P: AsRef<Path> + Send,
        {
            Err(Error::AgentFailure)
        }
    }

    /// Any `N`-byte response to `request_identities` yields a value or an error, never a panic.
    /// `count`: `Some(n)` fixes the key count field of the answer (bytes 1..5) to a concrete
    /// value - a symbolic count makes CBMC unroll the key loop to the unwinding bound with symbolic
    /// cursor positions (500 s at 13 bytes, DESIGN §8); lengths and contents stay symbolic.
    fn identities<const N: usize>(first: Option<u8>) {
        identities_n::<N>(first, None)
    }
    fn identities_n<const N: usize>(first: Option<u8>, count: Option<u32>) {
        let mut resp: [u8; N] = kani::any();
        if let (Some(b), true) = (first, N > 0) {
            resp[0] = b;
        }
        if let (Some(n), true) = (count, N >= 5) {
            resp[1..5].copy_from_slice(&n.to_be_bytes());
        }
        let mut c = AgentClient::connect(Canned(resp));
        let r = c.request_identities::<PublicKey>();
        kani::cover!(r.is_ok() || r.is_err());
        std::mem::forget(r);
    }

    /// Any `N`-byte response to `sign` yields a signature or an error, never a panic.
    fn sign<const N: usize>(first: Option<u8>) {
        let mut resp: [u8; N] = kani::any();
        if let (Some(b), true) = (first, N > 0) {
            resp[0] = b;
        }
        let key: [u8; 32] = kani::any();
        let data: [u8; 2] = kani::any();
        let mut c = AgentClient::connect(Canned(resp));
        let r = c.sign(&PublicKey::from(key), &data);
        kani::cover!(r.is_err());
        std::mem::forget(r);
    }

    fn query_extension<const N: usize>() {
        let resp: [u8; N] = kani::any();
        let mut c = AgentClient::connect(Canned(resp));
        let r = c.query_extension(b"x", Buffer::default());
        kani::cover!(r.is_err() || r.is_ok());
        std::mem::forget(r);
    }

    macro_rules! h {
        ($name:ident, $f:ident, $n:expr, $first:expr, $unwind:expr) => {
            #[kani::proof]
            #[kani::unwind($unwind)]
            #[kani::stub(std::string::String::from_utf8_lossy, lossy_stub)]
    #[kani::stub(zeroize::volatile_set, volatile_set_stub)]
            fn $name() {
                $f::<{ $n }>($first)
            }
        };
    }
    // identities answer = 12, sign response = 14, failure = 5
    h!(c27_identities_len0, identities, 0, None, 10);
    h!(c27_identities_len1, identities, 1, None, 10);
    h!(c27_identities_len5, identities, 5, Some(12), 10);
    h!(c27_identities_len9, identities, 9, Some(12), 13);
    macro_rules! hn {
        ($name:ident, $n:expr, $count:expr, $unwind:expr) => {
            #[kani::proof]
            #[kani::unwind($unwind)]
            #[kani::stub(std::string::String::from_utf8_lossy, lossy_stub)]
            #[kani::stub(zeroize::volatile_set, volatile_set_stub)]
            fn $name() {
                identities_n::<{ $n }>(Some(12), Some($count))
            }
        };
    }
    hn!(c27_identities_len13_n1, 13, 1, 17);
    hn!(c27_identities_len13_nmax, 13, u32::MAX, 17);
    hn!(c27_identities_len17_n1, 17, 1, 21);
    hn!(c27_identities_len17_n2, 17, 2, 21);
    hn!(c27_identities_len24_n1, 24, 1, 28);
    hn!(c27_identities_len24_n2, 24, 2, 28);
    hn!(c27_identities_len32_n1, 32, 1, 36);
    h!(c27_sign_len0, sign, 0, None, 140);
    h!(c27_sign_len1, sign, 1, None, 140);
    h!(c27_sign_len5, sign, 5, Some(14), 140);
    h!(c27_sign_len9, sign, 9, Some(14), 140);
    h!(c27_sign_len13, sign, 13, Some(14), 140);
    h!(c27_sign_len16, sign, 16, Some(14), 140);
    h!(c27_sign_len24, sign, 24, Some(14), 140);

    #[kani::proof]
    #[kani::unwind(20)]
    fn c27_query_extension_len0() {
        query_extension::<0>()
    }
    #[kani::proof]
    #[kani::unwind(20)]
    fn c27_query_extension_len6() {
        query_extension::<6>()
    }

    /// A well-formed 64-byte signature inside a sign response is returned unchanged.
    #[kani::proof]
    #[kani::unwind(140)]
    fn c27_sign_roundtrip() {
        let sig: [u8; 64] = kani::any();
        let mut resp = [0u8; 1 + 4 + 4 + 11 + 4 + 64];
        resp[0] = 14;
        resp[1..5].copy_from_slice(&(4u32 + 11 + 4 + 64).to_be_bytes());
        resp[5..9].copy_from_slice(&11u32.to_be_bytes());
        resp[9..20].copy_from_slice(b"ssh-ed25519");
        resp[20..24].copy_from_slice(&64u32.to_be_bytes());
        resp[24..].copy_from_slice(&sig);
        let key: [u8; 32] = kani::any();
        let mut c = AgentClient::connect(Canned(resp));
        let r = c.sign(&PublicKey::from(key), &[1, 2]);
        match r {
            Ok(s) => assert!(s == sig, "C27: signature changed on the way through the agent client"),
            Err(e) => {
                std::mem::forget(e);
                panic!("C27: well-formed sign response rejected")
            }
        }
        kani::cover!(true);
    }

    /// Keys and signatures written in the SSH wire encoding read back unchanged, and the reader
    /// consumes exactly what was written.
    #[kani::proof]
    #[kani::unwind(80)]
#[kani::stub(std::string::String::from_utf8_lossy, lossy_stub)]
    #[kani::stub(zeroize::volatile_set, volatile_set_stub)]
    fn c27_public_key_roundtrip() {
        let raw: [u8; 32] = kani::any();
        let k = PublicKey::from(raw);
        let mut buf = Buffer::default();
        k.write(&mut buf);
        // `write` emits the key blob as one SSH string (as it appears in an identities answer)
        let mut outer = buf.reader(0);
        let blob = outer.read_string().unwrap();
        assert!(outer.position == buf.len(), "C27: trailing bytes after the key blob");
        let mut r = blob.reader(0);
        let back = PublicKey::read(&mut r);
        match back {
            Ok(b) => {
                assert!(*b == *k, "C27: public key changed in the SSH encoding round trip");
                assert!(r.position == blob.len(), "C27: key blob not fully consumed");
            }
            Err(e) => {
                std::mem::forget(e);
                panic!("C27: encoded public key does not read back")
            }
        }
        kani::cover!(true);
    }

    #[kani::proof]
    #[kani::unwind(140)]
#[kani::stub(std::string::String::from_utf8_lossy, lossy_stub)]
    #[kani::stub(zeroize::volatile_set, volatile_set_stub)]
    fn c27_signature_roundtrip() {
        let raw: [u8; 64] = kani::any();
        let s = Signature::from(raw);
        let mut buf = Buffer::default();
        s.write(&mut buf);
        let mut r = buf.reader(0);
        match Signature::read(&mut r) {
            Ok(b) => {
                let (x, y): (&[u8], &[u8]) = (b.as_ref(), s.as_ref());
                assert!(x == y, "C27: signature changed in the SSH encoding round trip");
                assert!(r.position == buf.len(), "C27: signature encoding not fully consumed");
            }
            Err(e) => {
                std::mem::forget(e);
                panic!("C27: encoded signature does not read back")
            }
        }
        kani::cover!(true);
    }

    /// An identities answer carrying one well-formed ed25519 key (and any comment byte) yields
    /// exactly that key.
    #[kani::proof]
    #[kani::unwind(80)]
#[kani::stub(std::string::String::from_utf8_lossy, lossy_stub)]
    #[kani::stub(zeroize::volatile_set, volatile_set_stub)]
    fn c27_identities_roundtrip() {
        let raw: [u8; 32] = kani::any();
        let k = PublicKey::from(raw);
        let mut resp = [0u8; 1 + 4 + (4 + 4 + 11 + 4 + 32) + 4 + 1];
        resp[0] = 12;
        resp[1..5].copy_from_slice(&1u32.to_be_bytes());
        resp[5..9].copy_from_slice(&(4u32 + 11 + 4 + 32).to_be_bytes());
        resp[9..13].copy_from_slice(&11u32.to_be_bytes());
        resp[13..24].copy_from_slice(b"ssh-ed25519");
        resp[24..28].copy_from_slice(&32u32.to_be_bytes());
        resp[28..60].copy_from_slice(&raw);
        resp[60..64].copy_from_slice(&1u32.to_be_bytes());
        resp[64] = kani::any();
        let mut c = AgentClient::connect(Canned(resp));
        match c.request_identities::<PublicKey>() {
            Ok(keys) => {
                assert!(keys.len() == 1 && *keys[0] == *k, "C27: identities answer not decoded to the key it carries");
            }
            Err(e) => {
                std::mem::forget(e);
                panic!("C27: well-formed identities answer rejected")
            }
        }
        kani::cover!(true);
    }

    #[cfg(test)]
    mod replay {
        use super::*;
        include!("/verif/replays/active/ext_c27.rs");
    }
}
