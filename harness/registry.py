"""Registry of engines, properties and harnesses (read by /verif/bin/verif)."""
import os
import random
import sys

sys.path.insert(0, os.path.dirname(__file__))
import gen_c14_layouts as _g14  # noqa: E402
import gen_crdt_layouts as _g22  # noqa: E402

ENGINES = {
    # in-crate harnesses of radicle-node (hook modules `verif_kani`, cfg(kani))
    "node": {"cwd": "$REPO", "pkg": ["-p", "radicle-node", "--lib"], "slots": 4},
    # external harness crates: path dependencies on /repo/crates/*, public API only
    # shadow crates: regenerated from /repo's sources on every run (bin/shadowgen.py)
    # counterexamples of the crdt shadow are replayed against the REAL crate (std B-trees): /repo's radicle-crdt has the
    # same harness file hooked in under cfg(kani)
    "shadow_crdt": {"cwd": "$CACHE/shadow/crdt", "pkg": [], "slots": 4, "prepare": "prepare_crdt",
                    "playback": {"cwd": "$REPO", "pkg": ["-p", "radicle-crdt", "--features", "radicle-crypto/ssh"]}},
    "shadow_limiter": {"cwd": "$CACHE/shadow/limiter", "pkg": [], "slots": 1, "prepare": "prepare_limiter"},
    "shadow_sync": {"cwd": "$CACHE/shadow/sync", "pkg": [], "slots": 2, "prepare": "prepare_sync"},
    "shadow_canonical": {"cwd": "$CACHE/shadow/canonical", "pkg": [], "slots": 2, "prepare": "prepare_canonical"},
    "ext_radicle": {"cwd": "$VERIF/harness/ext/radicle", "pkg": [], "slots": 2, "copy_lock": True},
    "ext_c27": {"cwd": "$VERIF/harness/ext/c27", "pkg": [], "slots": 3, "copy_lock": True},
}
SETUP_ENGINES = ["node", "ext_c27", "shadow_crdt", "shadow_sync", "shadow_canonical", "ext_radicle", "shadow_limiter"]
# replay include files that exist in harness sources of an engine but belong to no registered harness (yet)
EXTRA_REPLAY_FILES = {"shadow_limiter": ["shadow_limiter"], "ext_radicle": ["ext_radicle_c19", "ext_radicle_c21"], "shadow_canonical": ["shadow_canonical"], "shadow_sync": ["shadow_sync"], "shadow_crdt": ["shadow_crdt", "shadow_crdt_vcoll"], "ext_c27": ["ext_c27"], "node": ["wire_c13", "wire_c14", "wire_c15", "service_c29", "limiter"]}

Q = ["quick", "thorough"]
T = ["thorough"]


def H(name, engine, module, replay_file, **kw):
    d = {"name": name, "engine": engine, "path": f"{module}::{name}" if module else None, "replay_file": replay_file}
    d.update(kw)
    return d


def select(pid, tier, seed, harnesses):
    """Quick tier: all non-rotating harnesses plus `quick_rotate` rotating ones chosen by VERIF_SEED."""
    if tier != "quick":
        return harnesses
    fixed = [h for h in harnesses if not h.get("rotate")]
    rot = [h for h in harnesses if h.get("rotate")]
    k = PROPERTIES[pid].get("quick_rotate", 0)
    random.Random(seed).shuffle(rot)
    return fixed + rot[:k]


PROPERTIES = {}

# ---------------------------------------------------------------------------------------------
# C14

_M14 = "wire::verif_kani::c14"
_F_DESER = [
    "deserializer::Deserializer::<64, Frame<M>>::{new,input,deserialize_next,unparsed,len,is_empty}",
    "wire::frame::Frame::<M>::{encode,decode}",
    "wire::frame::Control::{encode,decode}",
    "wire::frame::StreamId::{encode,decode,kind,nth}",
    "wire::varint::payload::{encode,decode}",
    "wire::varint::VarInt::{encode,decode}",
]
_ORACLE = ("alloc::vec::from_elem (vec![x; n]) -> allocation oracle: assert n <= bytes received + MAX_INBOX_SIZE + 64, "
           "then continue only with n <= 88 (larger requests end in UnexpectedEof at the following read_exact)")
_TAIL = ("M = Tail(u8, Option<u8>): harness-defined gossip message whose optional trailing byte is decoded like "
         "NodeAnnouncement.agent (EOF = absent)")
_OIDSTUB = "git2::Oid::from_bytes -> copy of the 20 raw bytes (libgit2 FFI; also avoids a Kani compiler ICE)"

_c14h = [
    H("c14_varint_roundtrip", "node", _M14, "wire_c14", tiers=Q, covers=2,
      functions=["wire::varint::VarInt::{new,encode,decode}"],
      bounds="x: any u64 <= 2^62-1 (full width, all four length classes): decode(encode(x)) == x, consumed == written == minimal length",
      stubs=[]),
    H("c14_payload_alloc_bounded", "node", _M14, "wire_c14", tiers=Q, covers=2,
      functions=["wire::varint::payload::decode", "wire::varint::VarInt::decode"],
      bounds="9 symbolic bytes, any prefix length 0..=9 given to the decoder (every 1/2/4/8-byte length prefix up to 2^62-1)",
      stubs=[_ORACLE]),
    H("c14_gossip_frame_alloc_bounded", "node", _M14, "wire_c14", tiers=Q, covers=2,
      functions=["wire::frame::Frame::<Tail>::decode (gossip branch)", "wire::varint::payload::decode"],
      bounds="version + gossip stream id + 7 symbolic bytes, any prefix length 5..=12", stubs=[_ORACLE, _TAIL]),
    H("c14_git_frame_alloc_bounded", "node", _M14, "wire_c14", tiers=Q, covers=2,
      functions=["wire::frame::Frame::<Tail>::decode (git branch)", "wire::varint::payload::decode"],
      bounds="version + git stream id + 7 symbolic bytes, any prefix length 5..=12", stubs=[_ORACLE, _TAIL]),
]
_c14h.append(H("c14_deserializer_state_is_buffer_only", "node", _M14, "wire_c14", tiers=Q, covers=1, stubs=[],
    functions=["deserializer::Deserializer (type layout)", "bounded::BoundedVec (type layout)"],
    bounds="structural premise of the chunking induction: size_of::<Deserializer<_, _>>() == size_of::<Vec<u8>>() - no state besides the unparsed bytes"))
for _m, _l, _t in [("tail", 0, Q), ("msg", 0, Q), ("msg", 1, Q), ("msg", 2, Q), ("msg", 3, T), ("msg", 4, T)]:
    _c14h.append(H(
        f"c14_complete_invalid_{_m}_l{_l}", "node", _M14, "wire_c14", tiers=_t, covers=1,
        functions=["deserializer::Deserializer::<64, Frame<M>>::deserialize_next", "wire::frame::Frame::<M>::decode", "wire::Error::is_eof"]
        + (["<service::message::Message as wire::Decode>::decode"] if _m == "msg" else []),
        bounds=f"complete gossip frame with a declared payload of {_l} byte(s), all present, payload bytes symbolic "
               f"(every message type tag); M = {'Message' if _m == 'msg' else 'Tail'}",
        stubs=[_OIDSTUB] + ([_TAIL] if _m == "tail" else [])))

# chunking layouts: the critical ones always run; the rest rotate with VERIF_SEED in the quick
# tier; thorough runs all of them
_C14_FIXED = {
    "c14_prefix_gossip_some_cut7", "c14_prefix_control_cut3", "c14_prefix_git2_cut5", "c14_prefix_gossip_none_cut6",
    "c14_complete_gossip_some_then_control_extra1", "c14_complete_git0_then_git2_extra0",
    "c14_complete_git0_then_gossip_some_extra8", "c14_complete_control_then_control_extra0",
}
for _l in _g14.prefix_layouts():
    _n = _g14.pname(_l)
    _c14h.append(H(
        _n, "node", _M14, "wire_c14", tiers=Q, covers=1, rotate=_n not in _C14_FIXED, timeout={"quick": 1200, "thorough": 3600},
        functions=_F_DESER,
        bounds=f"inductive step A: frame kind {_g14.NAMES[_l[0]]} (payload symbolic, control-flow fields concrete), first {_l[1]} of "
               f"its {_g14.LEN[_l[0]]} bytes fed: Ok(None) and the buffered bytes unchanged",
        stubs=[_TAIL]))
for _l in _g14.complete_layouts():
    _n = _g14.cname(_l)
    _c14h.append(H(
        _n, "node", _M14, "wire_c14", tiers=Q, covers=1, rotate=_n not in _C14_FIXED, timeout={"quick": 1200, "thorough": 3600},
        functions=_F_DESER,
        bounds=f"inductive step B: complete {_g14.NAMES[_l[0]]} frame followed by the first {_l[2]} byte(s) of a {_g14.NAMES[_l[1]]} "
               "frame: exactly the first frame is produced, exactly the extra bytes stay buffered (and the second frame is produced when complete)",
        stubs=[_TAIL]))

PROPERTIES["C14"] = {
    "harnesses": _c14h,
    "quick_rotate": 4,
    "outside": [
        "frames with payloads longer than 2 bytes / multi-byte stream ids in the chunking steps (the varint and payload harnesses cover all length classes separately)",
        "allocations other than vec![x; n] (Vec::with_capacity / reserve) are not instrumented by the oracle",
        "M = service::Message in the chunking steps (only in the complete-but-invalid harnesses)",
    ],
    "assumptions": [
        "Kani/CBMC model of the Rust allocator and of std",
        "chunking independence is concluded by induction from steps A and B over the deserializer state (the unparsed byte buffer); the induction itself is a paper argument (DESIGN.md, C14)",
    ],
}

# ---------------------------------------------------------------------------------------------
# C29

_M29 = "service::verif_kani::c29"
_SVC = "Service<Database, Storage, MemorySigner> is a partially initialised MaybeUninit: only `clock` and `last_timestamp` are written (the only fields Service::timestamp touches)"
PROPERTIES["C29"] = {
    "harnesses": [
        H("c29_timestamp_step_strictly_increases", "node", _M29, "service_c29", tiers=Q, covers=3,
          functions=["service::Service::timestamp", "Timestamp::from(LocalTime)", "Timestamp + u64", "LocalTime::{from_millis,as_millis}"],
          bounds="one inductive step: clock any u64 milliseconds, last signed timestamp any u64 < u64::MAX", stubs=[_SVC]),
        H("c29_timestamp_three_steps_any_clock", "node", _M29, "service_c29", tiers=Q, covers=2,
          functions=["service::Service::timestamp"],
          bounds="three consecutive calls, arbitrary clock value before each (forward, equal, backward), all values < u64::MAX - 3", stubs=[_SVC]),
        H("c29_timestamp_saturation_boundary", "node", _M29, "service_c29", tiers=Q, covers=1,
          functions=["service::Service::timestamp"], bounds="last = u64::MAX - 1, any clock: result is u64::MAX (documents the boundary of the claim)", stubs=[_SVC]),
    ],
    "outside": ["last_timestamp == u64::MAX (saturating add; 584 million years of milliseconds)",
                "that every signing site obtains its timestamp from Service::timestamp (refs_announcement_for, add/remove_inventory, initialize) is read off the source, not checked",
                "re-sending the cached node/inventory announcement to a new connection re-uses its old timestamp by design"],
    "assumptions": ["one-step induction: the only state the generator depends on is (clock, last_timestamp)"],
}

# ---------------------------------------------------------------------------------------------
# C17

_M17 = "service::limiter::verif_kani"
_F17 = ["service::limiter::TokenBucket::{new,refill,take}", "localtime::LocalTime::{from_millis,duration_since}", "localtime::LocalDuration::as_secs"]
_c17h = []
for _k, _tiers, _rates in [(3, Q, ["0", "0p1", "0p2", "third", "0p5", "1", "2p5", "10"]), (4, Q, ["0p2"]), (4, T, ["1"]), (5, T, ["0p2", "2p5"])]:
    for _r in _rates:
        _c17h.append(H(f"c17_window_k{_k}_rate_{_r}", "node", _M17, "limiter", tiers=_tiers, covers=2, timeout={"quick": 600, "thorough": 3000},
            functions=_F17,
            bounds=f"{_k} requests at arbitrary non-decreasing times (first < 2^40 ms, gaps < 2^32 ms) against one bucket created at the first request; capacity any value <= 2^20; refill rate = {_r.replace('p', '.').replace('third', '1/3')} tokens/s (concrete); every sub-window i..=j checked; f64 comparison with relative slack 1e-9",
            stubs=[]))
_c17h.append(H("c17_is_routable_classifies_every_ipv4", "node", _M17, "limiter", tiers=Q, covers=2,
    functions=["radicle::node::address::is_routable", "ipv4_is_routable", "ipv6_is_routable"],
    bounds="every IPv4 address (4 symbolic octets) and every IPv6 address (16 symbolic octets)", stubs=[]))
_c17h.append(H("c17_exemptions_hold_after_any_warmup", "shadow_limiter", "limiter::verif_kani", "shadow_limiter", tiers=Q, covers=3, timeout={"quick": 1500, "thorough": 3000},
    functions=["service::limiter::RateLimiter::{new,limit}", "TokenBucket::{new,take,refill}", "radicle::node::address::is_routable"],
    bounds="one host (any IPv4 address), one bypassed and one ordinary node, bucket capacity 1 without refill; an arbitrary warm-up request (none / anonymous / ordinary / bypassed) followed by the request under test from any of the three requesters",
    stubs=["K-shadow (single file): service/limiter.rs copied verbatim; `use std::collections::{HashMap, HashSet}` rewritten to two-slot models (harness/shadow/vhash.rs); HostName, NodeId, address::is_routable, LocalTime are the real code via path dependencies"]))
PROPERTIES["C17"] = {
    "harnesses": _c17h,
    "outside": ["refill rates other than the 8 listed (symbolic x symbolic f64 multiplication does not terminate on any back end here, DESIGN §8)",
                "more than 5 requests per timeline; capacities above 2^20",
                "RateLimiter::limit is checked over two-slot models of HashMap/HashSet (single-file shadow), for one host and two nodes; more hosts / more bypass entries are outside",
                "non-monotonic `now`: TokenBucket::refill panics (LocalTime::duration_since) on a backwards clock, but its only caller passes Service::clock, which Service::tick only ever advances (read off the source)"],
    "assumptions": ["request times are non-decreasing (established by Service::tick)", "IEEE-754 double arithmetic as modelled by CBMC's float encoding"],
}

# ---------------------------------------------------------------------------------------------
# C24 (engine S: SQL -> SMT-LIB2, see bin/sqlsmt.py)

PROPERTIES["C24"] = {"kind": "smt", "harnesses": []}

# ---------------------------------------------------------------------------------------------
# C27

_S27 = ["String::from_utf8_lossy -> \"\" (only builds the text of UnknownAlgorithm errors)", "zeroize::volatile_set -> no-op (wiping of spare capacity in Buffer's destructor)", "ClientStream = Canned<N>: an agent that answers every request with the given N bytes"]
_F27 = ["radicle_ssh::agent::client::AgentClient::{request_identities,sign,prepare_sign_request,read_signature,query_extension}", "radicle_ssh::encoding::Cursor::{read_string,read_u32,read_byte}", "<radicle_crypto::PublicKey as Encodable>::{read,write}", "<radicle_crypto::Signature as Encodable>::{read,write}"]
_c27h = []
for _n, _t in [("len0", Q), ("len1", Q), ("len5", Q), ("len9", T), ("len13_n1", Q), ("len13_nmax", T), ("len17_n1", Q), ("len17_n2", Q), ("len24_n1", Q), ("len24_n2", Q), ("len32_n1", T)]:
    _c27h.append(H(f"c27_identities_{_n}", "ext_c27", "harness", "ext_c27", tiers=_t, covers=1, functions=_F27, stubs=_S27,
        bounds=f"identities answer layout {_n}: response length concrete, key count field {'concrete' if '_n' in _n else 'symbolic'}, all other bytes (blob/comment lengths, key bytes) symbolic; K = radicle_crypto::PublicKey"))
for _n, _t in [("len0", Q), ("len1", Q), ("len5", Q), ("len9", Q), ("len13", Q), ("len16", Q), ("len24", T)]:
    _c27h.append(H(f"c27_sign_{_n}", "ext_c27", "harness", "ext_c27", tiers=_t, covers=1, functions=_F27, stubs=_S27,
        bounds=f"sign response of concrete length ({_n}), first byte = SIGN_RESPONSE where present, all other bytes symbolic; any 32-byte key, 2 data bytes"))
for _n in ["c27_query_extension_len0", "c27_query_extension_len6", "c27_sign_roundtrip", "c27_public_key_roundtrip", "c27_signature_roundtrip"]:
    _c27h.append(H(_n, "ext_c27", "harness", "ext_c27", tiers=Q, covers=1, functions=_F27, stubs=_S27,
        bounds="all 32 key bytes / 64 signature bytes symbolic; well-formed encodings" if "roundtrip" in _n else "extension answer of the given length, all bytes symbolic"))
PROPERTIES["C27"] = {
    "harnesses": _c27h,
    "outside": ["agent responses longer than 32 bytes (apart from the well-formed 88-byte sign response)", "identities answers with a symbolic key count beyond 9 bytes (count fixed to 1, 2 or u32::MAX per layout)", "SecretKey encoding (add_identity) and the Unix-socket ClientStream implementation"],
    "assumptions": ["Kani/CBMC model of std"],
}

# ---------------------------------------------------------------------------------------------
# C22

_M22 = "verif_kani"
_S22 = ["K-shadow: radicle-crdt/src/*.rs copied verbatim, only `use std::collections::...` lines rewritten to `crate::vcoll::...` (4-slot field-backed sorted map with BTreeMap semantics, differentially checked against std in c22_vcoll_matches_std_btreemap)"]
_c22h = []
for _n in ["max", "min", "bool", "option_max", "redactable", "lwwreg_max", "lwwreg_option"]:
    _c22h.append(H(f"c22_scalar_{_n}", "shadow_crdt", _M22, "shadow_crdt", tiers=Q, covers=1, stubs=[],
        functions=["Semilattice::{merge,join} for Max/Min/bool/Option/Redactable/LWWReg", "LWWReg::{new,set}"],
        bounds=f"three fully symbolic operands of type {_n} over u8 values and u8 clocks: associativity, commutativity, idempotence"))
_c22h.append(H("c22_lwwreg_set_greatest_clock", "shadow_crdt", _M22, "shadow_crdt", tiers=Q, covers=1, stubs=[], functions=["LWWReg::{new,set,get,clock}"],
    bounds="two writes with symbolic u8 clocks and values: value of the greatest clock, equal clocks merge, clock = max"))
for _n in ["c22_lwwmap_greatest_clock_wins", "c22_lwwset_insert_wins_at_equal_clock"]:
    _c22h.append(H(_n, "shadow_crdt", _M22, "shadow_crdt", tiers=Q, covers=2 if "lwwmap" in _n else 1, stubs=_S22,
        functions=["LWWMap::{insert,remove,get,contains_key}", "LWWSet::{insert,remove,contains}", "GMap::insert", "Semilattice::merge for LWWMap/LWWSet/GMap"],
        bounds="two writes (insert or remove, symbolic) to one key with symbolic u8 clocks and values, applied sequentially and via merge of two replicas"))
_c22h.append(H("c22_vcoll_matches_std_btreemap", "shadow_crdt", "verif_kani_vcoll", "shadow_crdt_vcoll", tiers=Q, covers=2, stubs=[], functions=["vcoll::BTreeMap vs std::collections::BTreeMap"],
    bounds="two inserts over a 2-key universe, symbolic values: insert results, len, get, first_key_value agree"))
for _k in _g22.LWW + _g22.GROW:
    for _l in _g22.layouts(_k):
        _c22h.append(H(_g22.name(_k, _l), "shadow_crdt", _M22, "shadow_crdt", tiers=Q, covers=1, stubs=_S22, rotate=False,
            functions=[f"Semilattice::merge for {_k}", "GMap::insert", "LWWReg::set"],
            bounds=f"{_k}: three single-key operands, operation kind per operand concrete (layout {_l}: 0 absent, 1 insert, 2 remove), u8 clocks and values symbolic: associativity, commutativity, idempotence"))
for _l in _g22.pointwise_layouts():
    _c22h.append(H(_g22.pname(_l), "shadow_crdt", _M22, "shadow_crdt", tiers=Q, covers=1, stubs=_S22, rotate=True, timeout={"quick": 600, "thorough": 1800},
        functions=["Semilattice::merge for LWWMap/GMap", "LWWMap::{insert,remove,get,contains_key}"],
        bounds=f"frame property: two 2-key LWWMap operands (operation kinds per key concrete: base-3 codes {_l[0]}, {_l[1]}), symbolic clocks/values; the merged map agrees at key {_l[2]} with the merge of the single-key restrictions"))
for _n in ["33_key0", "33_key1", "13_key0", "32_key1", "12_key0", "21_key1"]:
    _c22h.append(H(f"c22_gmap_pointwise_{_n}", "shadow_crdt", _M22, "shadow_crdt", tiers=Q, covers=1, stubs=_S22,
        functions=["Semilattice::merge for GMap", "GMap::{insert,get}"],
        bounds=f"frame property for GMap<u8, Max<u8>>: two 2-key operands with presence layout {_n}, symbolic values; merged map agrees per key with the merge of the single-key restrictions and has exactly the union of the keys"))
PROPERTIES["C22"] = {
    "harnesses": _c22h,
    "quick_rotate": 6,
    "outside": ["associativity checked directly on maps with 2+ keys (exhausts 25 GB); concluded from the single-key laws + the pointwise frame property",
                "keys beyond {0,1}, clocks/values wider than u8, GMap/GSet/LWWSet frame property (same GMap::merge code path as LWWMap)",
                "Immutable (merge panics by design), Lamport/Physical clocks as values"],
    "assumptions": ["the vcoll containers behave like std's BTreeMap on the API subset used (differential harness at size <= 2)", "laws for multi-key maps follow from single-key laws + pointwise merging (paper argument)"],
}

# ---------------------------------------------------------------------------------------------
# C25

_S25 = ["K-shadow (single file): node/sync.rs and node/sync/announce.rs copied verbatim into a shim crate; only the `use std::collections` imports are rewritten to `crate::vcoll` (bit-mask sets / 4-slot maps over the id universe {0,1,2,3}) and the `fetch` submodule declaration is dropped",
        "NodeId = 1-byte ordered id (the algorithm only uses Ord/Eq/Copy on node ids); Doc/Visibility shims for PrivateNetwork::private_repo"]
_F25 = ["node::sync::announce::Announcer::{new,synced_with,timed_out,to_sync,progress,finished,is_target_reached,success_counts}", "node::sync::announce::Target::new", "node::sync::ReplicationFactor::{must_reach,range,min,lower_bound,upper_bound}", "AnnouncerConfig::public"]
PROPERTIES["C25"] = {
    "harnesses": [
        H("c25_announcer_new_errors", "shadow_sync", "verif_kani", "shadow_sync", tiers=Q, covers=2, functions=_F25, stubs=_S25,
          bounds="local node, preferred / synced / unsynced sets (any subsets of 4 nodes) and replication factor (must_reach(0..=4) or range(0..=4, 0..=5)) all symbolic: construction succeeds or fails exactly as documented"),
        H("c25_announcer_new_and_one_event", "shadow_sync", "verif_kani", "shadow_sync", tiers=Q, covers=2, functions=_F25, stubs=_S25,
          bounds="as above + 1 sync result for a symbolic node (local, unknown, already synced included)"),
        H("c25_announcer_two_events", "shadow_sync", "verif_kani", "shadow_sync", tiers=Q, covers=2, functions=_F25, stubs=_S25,
          bounds="as above + 2 sync results for symbolic nodes (repeats included)"),
        H("c25_announcer_three_events", "shadow_sync", "verif_kani", "shadow_sync", tiers=Q, covers=2, functions=_F25, stubs=_S25,
          bounds="as above + 3 sync results for symbolic nodes (repeats included)"),
    ] + [
        H(f"c25_fetcher_{n}", "shadow_sync", "verif_kani", "shadow_sync", tiers=t, covers=2, stubs=_S25 + ["VecDeque -> 6-slot queue model (vcoll)", "FetchResults / FetchResult / Address -> models in the shim"], timeout={"quick": 1800, "thorough": 5400},
          functions=["node::sync::fetch::Fetcher::{new,next_node,ready_to_fetch,next_fetch,fetch_complete,finish,progress,is_target_reached,success_counts,missing_seeds}", "FetcherConfig::{public,with_candidates}", "fetch::Target::new"],
          bounds=f"local node, seed set (any subset of 4 nodes), one optional extra candidate (any node) and replication factor symbolic; {n.replace('_', ' ')} of next_node / ready / next_fetch / fetch_complete with a symbolic success-or-failure result")
        for n, t in (("one_round", Q), ("two_rounds", T), ("three_rounds", T))
    ] + [
        H("c25_fetcher_never_counts_local", "shadow_sync", "verif_kani", "shadow_sync", tiers=Q, covers=1, stubs=_S25 + ["VecDeque -> 6-slot queue model (vcoll)", "FetchResults / FetchResult / Address -> models in the shim"], timeout={"quick": 1800, "thorough": 5400},
          functions=["node::sync::fetch::Fetcher::{new,fetch_complete,finished,progress,is_target_reached,success_counts}"],
          bounds="symbolic configuration as above; a successful result is reported for the local node: it is not counted in the progress and completes the target only if the target asks for nothing"),
        H("c25_fetcher_result_before_fetch", "shadow_sync", "verif_kani", "shadow_sync", tiers=Q, covers=1, stubs=_S25 + ["VecDeque -> 6-slot queue model (vcoll)", "FetchResults / FetchResult / Address -> models in the shim"], timeout={"quick": 1800, "thorough": 5400},
          functions=["node::sync::fetch::Fetcher::{new,next_node,ready_to_fetch,fetch_failed,next_fetch,include_node}"],
          bounds="symbolic configuration as above; two candidates taken and made ready, the first fails before it is fetched, then two next_fetch calls: no node with a result (and not the local node) is handed out"),
    ],
    "outside": ["duplicate results for the same remote node and results for nodes that were never candidates are not fed to the Fetcher (the real FetchResults list counts every entry)",
                "radicle::node::{FetchResults, FetchResult, Address} are models in the shim (FetchResults keeps first result + counts per node), not /repo's code",
                "more than 4 nodes / more than 3 results; FetcherConfig::private"],
    "assumptions": ["reference target: every preferred seed synced AND distinct synced nodes >= replication bound (upper bound of a range, else lower bound), replication factor clamped to the number of nodes to sync at construction"],
}

# ---------------------------------------------------------------------------------------------
# C03

_S03 = ["K-shadow (single file): git/canonical.rs copied verbatim into a shim crate; `use std::collections::BTreeMap` rewritten to `crate::vcoll` (4-slot maps over ids 0..3); two add-only #[cfg(kani)] lines give the harness a constructor for the private fields",
        "Did / Oid = 1-byte ordered ids; raw::Repository = symbolic commit graph on 4 commits: merge_base returns a nondeterministically chosen best common ancestor (git's contract), NotFound when there is none; graph_ahead_behind from the ancestor sets"]
_F03 = ["git::canonical::Canonical::{quorum,modify_vote}"]
PROPERTIES["C03"] = {
    "harnesses": [
        H(f"c03_quorum_{n}_delegates", "shadow_canonical", "verif_kani", "shadow_canonical", tiers=Q, covers=2 if n > 2 else 2, functions=_F03, stubs=_S03,
          bounds=f"any DAG on 4 commits (symbolic parent sets, merge and criss-cross shapes included), {n} delegates with symbolic tips (several on one commit allowed), threshold 1..={n}, any choice among several best common ancestors")
        for n in (2, 3, 4)
    ],
    "outside": ["more than 4 commits / 4 delegates", "Canonical::reference / default_branch (read refs from storage) and Repository::set_head", "commit ids are topologically numbered (oid order vs ancestry order is not varied independently)"],
    "assumptions": ["merge_base returns some best common ancestor or NotFound (git's contract)"],
}

# ---------------------------------------------------------------------------------------------
# C19 / C21 (external harness crate over the public API of the radicle crate)

_F19 = ["radicle::identity::doc::Delegates::new", "radicle::identity::doc::Threshold::new", "radicle::identity::doc::Version::{new,is_valid_version}"]
_c19h = [H("c19_version_new", "ext_radicle", "c19", "ext_radicle_c19", tiers=Q, covers=1, functions=_F19, stubs=[], bounds="every u32 version number")]
for _p, _t in [("empty", Q), ("0", Q), ("00", Q), ("01", Q), ("000", T), ("001", Q), ("010", Q), ("011", T), ("012", Q), ("0120", T), ("0011", T), ("0101", T), ("0112", T)]:
    _c19h.append(H(f"c19_delegates_{_p}", "ext_radicle", "c19", "ext_radicle_c19", tiers=_t, covers=1, functions=_F19, stubs=[], timeout={"quick": 900, "thorough": 3000},
        bounds=f"delegate list with equality pattern [{_p}] over 3 concrete keys (entry i = key pattern[i]); threshold: every usize value"))
_F19R = ["radicle::identity::doc::RawDoc::verified", "radicle::identity::doc::Delegates::new", "radicle::identity::doc::Threshold::new", "radicle::identity::doc::Doc::{threshold,delegates}"]
for _p, _t in [("empty", Q), ("0", Q), ("00", Q), ("01", Q), ("001", Q), ("010", Q), ("012", Q), ("0120", T), ("0011", T), ("000", T), ("011", T), ("0101", T), ("0112", T)]:
    _c19h.append(H(f"c19_rawdoc_{_p}", "ext_radicle", "c19", "ext_radicle_c19", tiers=_t, covers=1, functions=_F19R, stubs=[], timeout={"quick": 900, "thorough": 3000},
        bounds=f"RawDoc::verified (the funnel of TryFrom<RawDoc> for Doc) on a raw document built by the cfg(kani) hook RawDoc::verif_raw: delegate list with equality pattern [{_p}] over 3 concrete keys, threshold: every usize value; accepted iff non-empty and 1 <= threshold <= #distinct delegates, result has distinct delegates and that threshold"))
PROPERTIES["C19"] = {
    "harnesses": _c19h,
    "outside": ["JSON (serde) decoding, canonical encoding and the blob hash that defines the repository id (serde_json, SHA-1): only the validation kernel that RawDoc::verified / TryFrom<RawDoc> funnels through is checked",
                "delegate lists longer than 4 entries and the MAX_DELEGATES (255) branch", "symbolic key bytes (keys are concrete, their equality pattern is enumerated)"],
    "assumptions": ["the c19_delegates_* harnesses drive Delegates::new / Threshold::new directly; that RawDoc::verified composes them correctly (threshold checked against the de-duplicated set) is decided by the c19_rawdoc_* harnesses, not assumed"],
}

_F21 = ["radicle::node::Alias::{from_str,as_str}", "core::str::from_utf8"]
PROPERTIES["C21"] = {
    "harnesses": [
        H(f"c21_alias_len{n}", "ext_radicle", "c21", "ext_radicle_c21", tiers=(Q if n <= 2 else T), covers=1, functions=_F21, stubs=[], timeout={"quick": 900, "thorough": 3000},
          bounds=f"{n} fully symbolic bytes, restricted to valid UTF-8 by the real str::from_utf8: parse never panics, print(parse(s)) == s, re-parse is the identity, ASCII control/white-space bytes and empty input are rejected, printable ASCII is accepted")
        for n in (1, 2, 3)
    ] + [
        H(f"c21_public_key_payload_len{n}", "ext_radicle", "c21", "ext_radicle_c21", tiers=Q, covers=1, stubs=["multibase::decode -> arbitrary answer: error, or a payload of the given length with symbolic bytes"],
          functions=["<radicle_crypto::PublicKey as FromStr>::from_str", "ed25519::PublicKey::from_slice"],
          bounds=f"decoded multibase payload of {n} symbolic bytes (or a base-layer error): parsing never panics; a key is returned only for 34 bytes with the ed25519 multicodec prefix and is exactly the remaining 32 bytes")
        for n in (0, 1, 2, 3, 33, 34)
    ] + [
        H(f"c21_did_payload_len{n}", "ext_radicle", "c21", "ext_radicle_c21", tiers=Q, covers=1, stubs=["multibase::decode -> arbitrary answer: error, or a payload of the given length with symbolic bytes"],
          functions=["radicle::identity::Did::decode", "<radicle_crypto::PublicKey as FromStr>::from_str"],
          bounds=f"\"did:key:\" + a key whose decoded multibase payload is {n} symbolic bytes (or a base-layer error): never panics; a DID comes back only for a well-formed key payload and carries exactly its 32 bytes")
        for n in (1, 34)
    ],
    "outside": ["the base-58 layer of public keys and DIDs (multibase::decode is stubbed by an arbitrary payload: it makes the Kani compiler panic and is a 32-byte big-number division loop); printing keys (to_human) and repository ids", "user agents (str::split / split_once over symbolic bytes does not finish in 900 s even at 1 symbolic byte)", "aliases longer than 3 bytes and the 32-byte limit", "Unicode (non-ASCII) control and white-space characters are only checked for not panicking"],
    "assumptions": [],
}

# ---------------------------------------------------------------------------------------------
# C13 / C15 (wire decoders; literal layouts)

import gen_wire_layouts as _gw  # noqa: E402

_OID = ["git2::Oid::from_bytes -> copy of the 20 raw bytes (libgit2 FFI; also avoids a Kani compiler ICE)"]
_c13h = []
for _n, _b in [("timestamp", "8 symbolic bytes, any prefix length"), ("node_id", "32 symbolic bytes, any prefix length"), ("filter", "8 symbolic bytes, any prefix length (size field symbolic)"),
               ("info", "46 symbolic bytes, any prefix length"), ("zero_bytes", "12 symbolic bytes, any prefix length (count field symbolic)"),
               ("alias_l2", "length prefix 2 + 2 symbolic bytes"), ("alias_l3", "length prefix 3 + 3 symbolic bytes"), ("string_l3", "length prefix 3 + 3 symbolic bytes")]:
    _c13h.append(H(f"c13_decode_{_n}", "node", "wire::verif_kani::c13", "wire_c13", tiers=Q, covers=1, stubs=_OID,
        functions=[f"<{_n} as wire::Decode>::decode"], bounds=_b + ": no panic / overflow / out-of-bounds / failed assert"))
_c15h = []
for _n in ["c15_address_ipv4", "c15_address_ipv6", "c15_address_dns1", "c15_address_dns2"]:
    _c15h.append(H(_n, "node", "wire::verif_kani::c15", "wire_c15", tiers=Q, covers=1, stubs=[],
        functions=["wire::deserialize::<Address>", "<Address as wire::Decode>::decode", "<Address as wire::Encode>::encode", "<String as wire::Decode>::decode"],
        bounds=f"layout {_n}: address type tag and host-name length literal, host bytes and port symbolic: address bytes that decode re-encode to exactly the same bytes"))
    _c13h.append(_c15h[-1])
for _n in ["c15_ping_z0", "c15_ping_z1", "c15_ping_z3", "c15_pong_z0", "c15_pong_z2", "c15_pong_trailing", "c15_unknown_type"] + [l[0] for l in _gw.LAYOUTS]:
    h = H(_n, "node", "wire::verif_kani::c15", "wire_c15", tiers=Q, covers=1, stubs=_OID,
          functions=["wire::deserialize::<Message>", "<Message as wire::Decode>::decode", "<Message as wire::Encode>::encode"],
          bounds=f"layout {_n}: type tag / length prefixes / counts literal, every content byte symbolic: decoding never panics; bytes that decode re-encode to exactly the same bytes within the 16-bit size limit")
    _c15h.append(h)
    if "subscribe" in _n or "unknown" in _n or "info" in _n:
        _c13h.append(h)
_c15h.append(H("c15_size_limits", "node", "wire::verif_kani::c15", "wire_c15", tiers=Q, covers=1, stubs=_OID,
    functions=["<RepoId as Encode>::encode", "<NodeId as Encode>::encode", "<Signature as Encode>::encode", "<RefsAt as Encode>::encode", "<Timestamp as Encode>::encode", "constants INVENTORY_LIMIT, REF_REMOTE_LIMIT, ADDRESS_LIMIT, MAX_ALIAS_LENGTH, MAX_PING_ZEROES, MAX_PONG_ZEROES, wire::Size::MAX"],
    bounds="item contents symbolic (20-byte oid, 32-byte key, 64-byte signature, u32 timestamp); maximal inventory / refs / node announcements and ping / pong computed from the real constants and the real encoded item sizes stay within the 16-bit frame limit"))
PROPERTIES["C13"] = {
    "harnesses": _c13h,
    "outside": ["git request header (pkt-line) parsing: not encodable (see harness/incrate/worker.rs); the baseline panics there for length fields < 4 or > 1024 are known from reading but are NOT established by a check",
                "node / inventory / refs announcements, addresses and user agents with symbolic length prefixes (no layout finishes in 15 min)",
                "Service::handle_message / handle_announcement, gossip::Store asserts (timestamp 0, since > until): Service state over hash maps + sqlite",
                "message sequences, connection states, the reactor (schedules)"],
    "assumptions": [],
}
PROPERTIES["C15"] = {
    "harnesses": _c15h,
    "outside": ["announcement messages (node, inventory, refs) and Subscribe with a valid 1/4/16 KiB filter: length-prefixed vectors/strings are not encodable within reach",
                "value round trip decode(encode(m)) == m is only covered through byte canonicity of the layouts (git2::Oid equality is FFI)",
                "the size-limit harness takes the announcement *structure* (which fields, in which order) from reading the encoders; only item sizes and constants come from the code"],
    "assumptions": [],
}
