//! Kani harnesses compiled inside `radicle_node::wire` (module `verif_kani`).
//! Loaded through the `#[cfg(kani)] #[path = ...] mod verif_kani;` hook at the end of
//! `/repo/crates/radicle-node/src/wire.rs`; private items of `wire` are visible here.
#![allow(dead_code, unused_imports)]

/// Stubs shared by the harnesses of this module.
pub mod stubs {
    /// `git2::Oid::from_bytes` reaches libgit2 initialisation + FFI (and makes the Kani compiler
    /// panic, DESIGN §8).  The C function copies 20 raw bytes into the struct; so does this.
    pub fn oid_from_bytes(bytes: &[u8]) -> Result<crate::git::raw::Oid, crate::git::raw::Error> {
        if bytes.len() != 20 {
            Err(crate::git::raw::Error::from_str("raw byte array must be 20 bytes"))
        } else {
            let mut a = [0u8; 20];
            a.copy_from_slice(bytes);
            Ok(unsafe { std::mem::transmute::<[u8; 20], crate::git::raw::Oid>(a) })
        }
    }
}

#[path = "/verif/harness/incrate/wire_c14.rs"]
mod c14;

#[path = "/verif/harness/incrate/wire_c13.rs"]
mod c13;

#[path = "/verif/harness/incrate/wire_c15.rs"]
mod c15;
