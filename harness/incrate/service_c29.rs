//! C29 — node-signed announcement timestamps strictly increase.
//!
//! `Service::timestamp` is private and generic; it is driven on a *partially initialised*
//! `Service<Database, Storage, MemorySigner>` in which only the two fields it touches
//! (`clock`, `last_timestamp`) are written.  Everything else is never read by the function.
use super::super::*;
use std::mem::MaybeUninit;

type Svc = Service<radicle::node::Database, radicle::Storage, radicle::crypto::ssh::keystore::MemorySigner>;

fn with_service<R>(clock_ms: u64, last: u64, f: impl FnOnce(&mut Svc) -> R) -> R {
    let mut s = MaybeUninit::<Svc>::uninit();
    let p = s.as_mut_ptr();
    unsafe {
        std::ptr::addr_of_mut!((*p).clock).write(LocalTime::from_millis(clock_ms as u128));
        std::ptr::addr_of_mut!((*p).last_timestamp).write(Timestamp::try_from(0u64).unwrap() + last);
        f(&mut *p)
    }
}

/// One inductive step from an arbitrary state: for any clock reading and any previously signed
/// timestamp below `u64::MAX`, the next timestamp is strictly greater than the previous one,
/// is what gets remembered, and is the clock value whenever the clock is ahead.
#[kani::proof]
fn c29_timestamp_step_strictly_increases() {
    let clock_ms: u64 = kani::any();
    let last: u64 = kani::any();
    kani::assume(last < u64::MAX);
    with_service(clock_ms, last, |svc| {
        let before = *svc.last_timestamp;
        let t = svc.timestamp();
        assert!(*t > before, "C29: timestamp not strictly greater than the last one signed");
        assert!(*svc.last_timestamp == *t, "C29: returned timestamp is not the one remembered");
        assert!(*t >= clock_ms || clock_ms > *Timestamp::MAX, "C29: timestamp behind the clock");
        kani::cover!(*t == before + 1 && clock_ms < before); // clock moved backwards
        kani::cover!(*t == before + 1 && clock_ms == before); // clock stalled
        kani::cover!(*t == clock_ms && clock_ms > before + 1); // clock moved forwards
    });
}

/// Three consecutive announcements with arbitrary (forward, equal, backward) clock values in
/// between: a strictly increasing sequence.
#[kani::proof]
fn c29_timestamp_three_steps_any_clock() {
    let last: u64 = kani::any();
    kani::assume(last < u64::MAX - 3);
    let c: [u64; 3] = kani::any();
    // clock readings at the very top of the u64 range are outside the claim (saturating add)
    kani::assume(c[0] < u64::MAX - 3 && c[1] < u64::MAX - 3 && c[2] < u64::MAX - 3);
    with_service(c[0], last, |svc| {
        let t0 = svc.timestamp();
        svc.clock = LocalTime::from_millis(c[1] as u128);
        let t1 = svc.timestamp();
        svc.clock = LocalTime::from_millis(c[2] as u128);
        let t2 = svc.timestamp();
        assert!(last < *t0 && *t0 < *t1 && *t1 < *t2, "C29: timestamps not strictly increasing");
        kani::cover!(c[1] < c[0] && c[2] < c[1]);
        kani::cover!(c[0] == c[1] && c[1] == c[2]);
    });
}

#[kani::proof]
fn c29_timestamp_saturation_boundary() {
    // At last == u64::MAX the saturating add cannot increase any more: documented boundary of the
    // claim (584 million years of milliseconds).  The harness pins the boundary down exactly.
    let clock_ms: u64 = kani::any();
    with_service(clock_ms, u64::MAX - 1, |svc| {
        let t = svc.timestamp();
        assert!(*t == u64::MAX);
        kani::cover!(true);
    });
}

#[cfg(test)]
mod replay {
    use super::*;
    include!("/verif/replays/active/service_c29.rs");
}
