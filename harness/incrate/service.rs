//! Kani harnesses compiled inside `radicle_node::service` (module `verif_kani`).
#![allow(dead_code, unused_imports)]

#[path = "/verif/harness/incrate/service_c29.rs"]
mod c29;
