//! C15 — wire messages round-trip and have a unique encoding; C13 — decoders never panic.
//!
//! Every harness fixes the *layout* of a message (type tag, length prefixes, counts, address
//! type tags) as an array literal and leaves the *content* bytes symbolic - CBMC forks on every
//! branch whose condition is not syntactically constant, so symbolic length fields cost minutes
//! per field (DESIGN §8).  For each layout:
//!   - decoding never panics (C13);
//!   - if the bytes decode to a message, re-encoding it yields exactly those bytes (C15: unique
//!     encoding; this is also what makes a signature checked on the re-encoding a signature over
//!     what was sent), and the encoded size is within the 16-bit frame limit.
use crate::wire::{self, Decode, Encode, Message};
use std::io;

fn s() -> u8 {
    kani::any()
}

/// decode . encode identity on the given bytes (if they decode), never a panic.
fn canon<const N: usize>(bytes: [u8; N]) {
    let r = wire::deserialize::<Message>(&bytes);
    match r {
        Ok(m) => {
            let mut out = [0u8; N];
            let n = {
                let mut w = io::Cursor::new(&mut out[..]);
                match m.encode(&mut w) {
                    Ok(n) => n,
                    Err(e) => {
                        std::mem::forget(e);
                        panic!("C15: a decoded message does not re-encode into the same number of bytes")
                    }
                }
            };
            assert!(n == N, "C15: re-encoding has a different length than the bytes received");
            assert!(n <= wire::Size::MAX as usize);
            let mut i = 0;
            while i < N {
                assert!(out[i] == bytes[i], "C15: bytes that decode successfully do not re-encode to the same bytes");
                i += 1;
            }
            std::mem::forget(m);
        }
        Err(e) => std::mem::forget(e),
    }
    kani::cover!(true);
}

/// The same for a component type (addresses): bytes that decode (consuming everything) re-encode
/// to exactly those bytes.
fn canon_t<T: Decode + Encode, const N: usize>(bytes: [u8; N]) {
    match wire::deserialize::<T>(&bytes) {
        Ok(v) => {
            let mut out = [0u8; N];
            let n = {
                let mut w = io::Cursor::new(&mut out[..]);
                match v.encode(&mut w) {
                    Ok(n) => n,
                    Err(e) => {
                        std::mem::forget(e);
                        panic!("C15: a decoded value does not re-encode into the same number of bytes")
                    }
                }
            };
            assert!(n == N, "C15: re-encoding has a different length than the bytes received");
            let mut i = 0;
            while i < N {
                assert!(out[i] == bytes[i], "C15: bytes that decode successfully do not re-encode to the same bytes");
                i += 1;
            }
            std::mem::forget(v);
        }
        Err(e) => std::mem::forget(e),
    }
    kani::cover!(true);
}

macro_rules! layout_t {
    ($name:ident, $t:ty, $unwind:expr, $n:expr, $bytes:expr) => {
        #[kani::proof]
        #[kani::unwind($unwind)]
        fn $name() {
            canon_t::<$t, { $n }>($bytes)
        }
    };
}
// Address: type tag | host | port
layout_t!(c15_address_ipv4, crate::node::Address, 12, 7, [1, s(), s(), s(), s(), s(), s()]);
layout_t!(c15_address_ipv6, crate::node::Address, 22, 19, [2, s(), s(), s(), s(), s(), s(), s(), s(), s(), s(), s(), s(), s(), s(), s(), s(), s(), s()]);
layout_t!(c15_address_dns1, crate::node::Address, 12, 5, [3, 1, s(), s(), s()]);
layout_t!(c15_address_dns2, crate::node::Address, 12, 6, [3, 2, s(), s(), s(), s()]);

/// Every message the node can construct fits the 16-bit frame limit: the maximum encoded size of
/// each message kind, computed from the *real* limit constants and from the encoded size of one
/// item as produced by the *real* encoders (on symbolic item contents), is at most `Size::MAX`.
/// A raised limit or a grown item encoding is caught here.
#[kani::proof]
#[kani::unwind(70)]
#[kani::stub(crate::git::raw::Oid::from_bytes, super::stubs::oid_from_bytes)]
fn c15_size_limits() {
    use crate::service::message::{Ping, ADDRESS_LIMIT, INVENTORY_LIMIT, REF_REMOTE_LIMIT};
    use crate::storage::refs::RefsAt;
    let max = wire::Size::MAX as usize;
    let mut buf = [0u8; 128];

    let oid = crate::git::Oid::from(super::stubs::oid_from_bytes(&kani::any::<[u8; 20]>()).unwrap());
    let rid = crate::identity::RepoId::from(oid);
    let n_rid = rid.encode(&mut io::Cursor::new(&mut buf[..])).unwrap();
    let node = crate::service::NodeId::from(kani::any::<[u8; 32]>());
    let n_node = node.encode(&mut io::Cursor::new(&mut buf[..])).unwrap();
    let sig = crate::crypto::Signature::from(kani::any::<[u8; 64]>());
    let n_sig = sig.encode(&mut io::Cursor::new(&mut buf[..])).unwrap();
    let n_refs_at = RefsAt { remote: node, at: oid }.encode(&mut io::Cursor::new(&mut buf[..])).unwrap();
    let n_ts = crate::Timestamp::try_from(kani::any::<u32>() as u64).unwrap().encode(&mut io::Cursor::new(&mut buf[..])).unwrap();

    let head = 2 + n_node + n_sig; // type tag, announcer, signature
    assert!(head + 2 + INVENTORY_LIMIT * n_rid + n_ts <= max, "C15: a full inventory announcement exceeds the frame limit");
    assert!(head + n_rid + 2 + REF_REMOTE_LIMIT * n_refs_at + n_ts <= max, "C15: a full refs announcement exceeds the frame limit");
    // node announcement: version, features, timestamp, alias, addresses (DNS names up to 255 bytes
    // are the largest address encoding), nonce, user agent
    let max_addr = 1 + (1 + 255) + 2;
    assert!(
        head + 1 + 8 + n_ts + (1 + radicle::node::MAX_ALIAS_LENGTH) + 2 + ADDRESS_LIMIT * max_addr + 8 + (1 + 64) <= max,
        "C15: a full node announcement exceeds the frame limit"
    );
    assert!(2 + 2 + 2 + Ping::MAX_PING_ZEROES as usize <= max, "C15: a maximal ping exceeds the frame limit");
    assert!(2 + 2 + Ping::MAX_PONG_ZEROES as usize <= max, "C15: a maximal pong exceeds the frame limit");
    kani::cover!(n_rid == 22 && n_refs_at == 54);
}

macro_rules! layout {
    ($name:ident, $unwind:expr, $n:expr, $bytes:expr) => {
        #[kani::proof]
        #[kani::unwind($unwind)]
        #[kani::stub(crate::git::raw::Oid::from_bytes, super::stubs::oid_from_bytes)]
        fn $name() {
            canon::<{ $n }>($bytes)
        }
    };
}

// Ping: type 10 | ponglen u16 | zeroes: u16 count + that many bytes
layout!(c15_ping_z0, 12, 6, [0, 10, s(), s(), 0, 0]);
layout!(c15_ping_z1, 12, 7, [0, 10, s(), s(), 0, 1, s()]);
layout!(c15_ping_z3, 12, 9, [0, 10, s(), s(), 0, 3, s(), s(), s()]);
// Pong: type 12 | zeroes
layout!(c15_pong_z0, 12, 4, [0, 12, 0, 0]);
layout!(c15_pong_z2, 12, 6, [0, 12, 0, 2, s(), s()]);
// trailing byte after a complete message must be rejected (no second encoding of the same message)
layout!(c15_pong_trailing, 12, 5, [0, 12, 0, 0, s()]);
// unknown type tags
layout!(c15_unknown_type, 12, 4, [s(), s(), s(), s()]);

include!("/verif/harness/incrate/wire_c15_layouts.rs");

#[cfg(test)]
mod replay {
    use super::*;
    include!("/verif/replays/active/wire_c15.rs");
}
