//! C14 — frame decoding is memory-bounded and chunking-independent.
use crate::wire::{self, frame, varint, Decode, Encode};
use std::io;

/// The constant of the property statement (bytes): the fixed size of the peer inbox
/// (`wire::protocol::MAX_INBOX_SIZE`, 2 MiB - what the decoder may allocate for a frame that is
/// still being received) plus 64 bytes for error values and bookkeeping.
const SLACK: usize = crate::wire::protocol::MAX_INBOX_SIZE + 64;
/// After the oracle's assertion the stubs only continue with requests of at most
/// `MAX_INPUT + CONT` bytes (`kani::assume`): every path on which a decoder asks for more than
/// it has received ends in `UnexpectedEof` at the following `read_exact`, and following it further
/// would need loop bounds in the order of `SLACK`.  This cut is part of the claim.
const CONT: usize = 64;
/// Largest number of input bytes any harness of this file feeds to a decoder.
pub const MAX_INPUT: usize = 24;

/// Allocation oracle.  Under the model checker `alloc::vec::from_elem` (what `vec![x; n]` expands
/// to) is stubbed by `from_elem_oracle`, which asserts the requested size against the number of
/// bytes the decoder has been given (CBMC's allocator never fails, so the memory bound has to be
/// an assertion).  In a native replay (`cargo kani playback`: `cfg(kani)` + `cfg(test)`, stubs
/// are not applied) the same bound is checked by a tracking global allocator.
mod oracle {
    use super::{CONT, MAX_INPUT, SLACK};
    pub static mut AVAILABLE: usize = 0;

    pub fn begin(available: usize) {
        unsafe { AVAILABLE = available };
        #[cfg(test)]
        native::begin();
    }
    pub fn end() {
        #[cfg(test)]
        {
            let max = native::end();
            let avail = unsafe { AVAILABLE };
            assert!(
                max <= avail + SLACK,
                "C14 allocation oracle (native): a single allocation of {max} bytes was requested with {avail} bytes received"
            );
        }
    }

    pub fn from_elem_oracle<T: Clone>(elem: T, n: usize) -> Vec<T> {
        let avail = unsafe { AVAILABLE };
        assert!(
            n <= avail + SLACK,
            "C14 allocation oracle: requested size exceeds bytes received + constant"
        );
        kani::assume(n <= MAX_INPUT + CONT);
        // Every use in the code under test is `vec![0u8; n]`: hand out zeroed memory of a
        // concrete capacity (cheap in CBMC's heap model) through the zeroing entry point,
        // which is not subject to the `alloc` stub below.
        assert!(std::mem::size_of::<T>() == 1 && unsafe { *(&elem as *const T as *const u8) } == 0);
        let cap = MAX_INPUT + CONT;
        let mut v: Vec<T> = unsafe {
            let l = std::alloc::Layout::array::<T>(cap).unwrap();
            Vec::from_raw_parts(std::alloc::alloc_zeroed(l) as *mut T, 0, cap)
        };
        unsafe { v.set_len(n) };
        std::mem::forget(elem);
        v
    }

    /// Stub for `alloc::alloc::alloc` (every `Vec::with_capacity`, `reserve`, `Box::new`, ...):
    /// assert the bound, then allocate through the un-stubbed zeroing entry point.
    pub unsafe fn alloc_oracle(layout: std::alloc::Layout) -> *mut u8 {
        let avail = unsafe { AVAILABLE };
        assert!(
            layout.size() <= avail + SLACK,
            "C14 allocation oracle: requested size exceeds bytes received + constant"
        );
        kani::assume(layout.size() <= MAX_INPUT + CONT);
        unsafe { std::alloc::alloc_zeroed(layout) }
    }

    /// Stub for `alloc::alloc::realloc` (vector growth).
    pub unsafe fn realloc_oracle(ptr: *mut u8, layout: std::alloc::Layout, new_size: usize) -> *mut u8 {
        let avail = unsafe { AVAILABLE };
        assert!(
            new_size <= avail + SLACK,
            "C14 allocation oracle: requested size exceeds bytes received + constant"
        );
        kani::assume(new_size <= MAX_INPUT + CONT);
        unsafe {
            let new = std::alloc::alloc_zeroed(std::alloc::Layout::from_size_align_unchecked(new_size, layout.align()));
            let n = if layout.size() < new_size { layout.size() } else { new_size };
            std::ptr::copy_nonoverlapping(ptr, new, n);
            std::alloc::dealloc(ptr, layout);
            new
        }
    }

    #[cfg(test)]
    mod native {
        use std::alloc::{GlobalAlloc, Layout, System};
        use std::cell::Cell;
        use std::sync::atomic::{AtomicUsize, Ordering};

        thread_local! { static TRACKING: Cell<bool> = const { Cell::new(false) }; }
        static MAX: AtomicUsize = AtomicUsize::new(0);

        struct Track;
        unsafe impl GlobalAlloc for Track {
            unsafe fn alloc(&self, l: Layout) -> *mut u8 {
                note(l.size());
                System.alloc(l)
            }
            unsafe fn alloc_zeroed(&self, l: Layout) -> *mut u8 {
                note(l.size());
                System.alloc_zeroed(l)
            }
            unsafe fn realloc(&self, p: *mut u8, l: Layout, n: usize) -> *mut u8 {
                note(n);
                System.realloc(p, l, n)
            }
            unsafe fn dealloc(&self, p: *mut u8, l: Layout) {
                System.dealloc(p, l)
            }
        }
        fn note(n: usize) {
            if TRACKING.try_with(|t| t.get()).unwrap_or(false) {
                MAX.fetch_max(n, Ordering::SeqCst);
            }
        }
        #[global_allocator]
        static GLOBAL: Track = Track;

        pub fn begin() {
            MAX.store(0, Ordering::SeqCst);
            TRACKING.with(|t| t.set(true));
        }
        pub fn end() -> usize {
            TRACKING.with(|t| t.set(false));
            MAX.load(Ordering::SeqCst)
        }
    }
}
use oracle::from_elem_oracle;

#[kani::proof]
#[kani::unwind(10)]
fn c14_varint_roundtrip() {
    let x: u64 = kani::any();
    kani::assume(x <= *varint::VarInt::MAX);
    let v = varint::VarInt::new(x).unwrap();
    let mut buf = [0u8; 8];
    let n = {
        let mut w = io::Cursor::new(&mut buf[..]);
        v.encode(&mut w).unwrap()
    };
    // Written length is the minimal one of the four classes.
    let expect = if x < 1 << 6 { 1 } else if x < 1 << 14 { 2 } else if x < 1 << 30 { 4 } else { 8 };
    assert!(n == expect);
    let mut r = io::Cursor::new(&buf[..n]);
    let d = varint::VarInt::decode(&mut r).unwrap();
    assert!(*d == x);
    assert!(r.position() as usize == n);
    kani::cover!(n == 1);
    kani::cover!(n == 8 && x == *varint::VarInt::MAX);
}

/// Every prefix of every 9-byte string: a varint-prefixed payload never asks for more memory
/// than was received plus a constant.
#[kani::proof]
#[kani::unwind(12)]
#[kani::stub(std::vec::from_elem, from_elem_oracle)]
fn c14_payload_alloc_bounded() {
    let bytes: [u8; 9] = kani::any();
    let len: usize = kani::any();
    kani::assume(len <= 9);
    oracle::begin(len);
    let mut r = io::Cursor::new(&bytes[..len]);
    let res = varint::payload::decode(&mut r);
    oracle::end();
    kani::cover!(res.is_ok());
    kani::cover!(res.is_err());
}


/// The same bound for whole frames: any 12-byte prefix-closed input decoded as a gossip or git
/// frame (stream kind concrete per harness, see `frame_of`), `M = Tail`.
fn frame_alloc_bounded(stream: u8) {
    let mut bytes: [u8; 12] = kani::any();
    bytes[..4].copy_from_slice(&[b'r', b'a', b'd', crate::PROTOCOL_VERSION]);
    bytes[4] = stream;
    let len: usize = kani::any();
    kani::assume(len >= 5 && len <= 12);
    oracle::begin(len);
    let mut r = io::Cursor::new(&bytes[..len]);
    let res = Frame::<Tail>::decode(&mut r);
    oracle::end();
    kani::cover!(res.is_ok());
    kani::cover!(res.is_err());
    std::mem::forget(res);
}

#[kani::proof]
#[kani::unwind(14)]
#[kani::stub(std::vec::from_elem, from_elem_oracle)]
fn c14_gossip_frame_alloc_bounded() {
    frame_alloc_bounded(0b011);
}

#[kani::proof]
#[kani::unwind(14)]
#[kani::stub(std::vec::from_elem, from_elem_oracle)]
fn c14_git_frame_alloc_bounded() {
    frame_alloc_bounded(0b100);
}

// ------------------------------------------------------------------------------------------
// Chunking independence and "complete but invalid is an error".

use crate::deserializer::Deserializer;
use crate::wire::frame::{Control, Frame, FrameData, StreamId};
use crate::wire::Message;
use crate::Link;

/// A gossip payload type with an *optional trailing field*, decoded the way
/// `NodeAnnouncement` decodes its optional user agent: end-of-input at the optional field means
/// "absent".  A legitimate `Decode` impl; it makes the frame decoder's handling of partially
/// received payloads observable with 1-2 byte messages.
#[derive(Debug, Clone, Copy, PartialEq, Eq)]
pub struct Tail(pub u8, pub Option<u8>);

impl Encode for Tail {
    fn encode<W: io::Write + ?Sized>(&self, w: &mut W) -> Result<usize, io::Error> {
        let mut n = self.0.encode(w)?;
        if let Some(b) = self.1 {
            n += b.encode(w)?;
        }
        Ok(n)
    }
}

impl Decode for Tail {
    fn decode<R: io::Read + ?Sized>(r: &mut R) -> Result<Self, wire::Error> {
        let a = u8::decode(r)?;
        let b = match u8::decode(r) {
            Ok(b) => Some(b),
            Err(e) if e.is_eof() => None,
            Err(e) => return Err(e),
        };
        Ok(Tail(a, b))
    }
}

fn any_link() -> Link {
    if kani::any() {
        Link::Inbound
    } else {
        Link::Outbound
    }
}

/// Frame kinds of the chunking harnesses; every layout has a concrete encoded length so that
/// CBMC sees concrete slice lengths (symbolic lengths cost > 5 min per harness, DESIGN §8).
pub const K_CONTROL: u8 = 0; // 4 + 1 + (1 + 1)           = 7 bytes
pub const K_GOSSIP_SOME: u8 = 1; // 4 + 1 + 1 + 2           = 8 bytes
pub const K_GOSSIP_NONE: u8 = 2; // 4 + 1 + 1 + 1           = 7 bytes
pub const K_GIT2: u8 = 3; // 4 + 1 + 1 + 2                  = 8 bytes
pub const K_GIT0: u8 = 4; // 4 + 1 + 1                      = 6 bytes

const fn frame_len(kind: u8) -> usize {
    match kind {
        K_CONTROL | K_GOSSIP_NONE => 7,
        K_GOSSIP_SOME | K_GIT2 => 8,
        _ => 6,
    }
}

/// A frame of the given kind.  Everything that steers the decoder's control flow (stream kind,
/// initiator bit, sequence number, control opcode) is concrete per harness instance, because CBMC
/// forks on every branch whose condition is not syntactically constant (a symbolic stream-id byte
/// alone costs 95 s per decode, DESIGN §8); the payload (message fields, git data, the control
/// frame's target stream id - any 62-bit value) is symbolic.
fn frame_of(kind: u8, salt: usize) -> Frame<Tail> {
    let link = if salt % 2 == 0 { Link::Inbound } else { Link::Outbound };
    let n = (salt as u64 * 3 + kind as u64) % 8;
    match kind {
        K_CONTROL => {
            let target: u64 = kani::any();
            kani::assume(target < 64); // 1-byte varint: the layout has a fixed length
            let target = StreamId::control(Link::Outbound).nth(target >> 3).unwrap();
            let ctrl = match salt % 3 {
                0 => Control::Open { stream: target },
                1 => Control::Close { stream: target },
                _ => Control::Eof { stream: target },
            };
            let mut f = Frame::control(link, ctrl);
            f.stream = f.stream.nth(n).unwrap();
            f
        }
        K_GOSSIP_SOME | K_GOSSIP_NONE => {
            let tail = if kind == K_GOSSIP_SOME { Some(kani::any()) } else { None };
            let mut f = Frame::gossip(link, Tail(kani::any(), tail));
            f.stream = f.stream.nth(n).unwrap();
            f
        }
        K_GIT2 => {
            let bytes: [u8; 2] = kani::any();
            Frame::git(StreamId::git(link).nth(n).unwrap(), bytes.to_vec())
        }
        _ => Frame::git(StreamId::git(link).nth(n).unwrap(), Vec::new()),
    }
}

/// Chunking independence, decomposed into two inductive steps over the deserializer's only
/// state (the buffer of unparsed bytes; `input()` appends to it):
///
///  (A) `prefix_identity`: on every *proper prefix* of a frame's encoding, `deserialize_next()`
///      returns `Ok(None)` and leaves the buffered bytes unchanged - so feeding the rest later is
///      the same as having fed everything at once;
///  (B) `complete_then`: on a complete frame followed by `EXTRA` bytes of a following frame,
///      `deserialize_next()` returns exactly that frame and leaves exactly those `EXTRA` bytes -
///      so the next frame starts from a state that only depends on its own bytes.
///
/// By induction over the chunks, any split of any frame sequence yields the same frames in order.
/// (A single harness doing both steps costs > 200 s per layout, DESIGN §8.)
fn encode_into(f: &Frame<Tail>, buf: &mut [u8]) -> usize {
    let mut w = io::Cursor::new(buf);
    f.encode(&mut w).unwrap()
}

fn prefix_identity<const KIND: u8, const CUT: usize>() {
    let f1 = frame_of(KIND, CUT);
    let mut buf = [0u8; 8];
    let l1 = encode_into(&f1, &mut buf[..]);
    assert!(l1 == frame_len(KIND));
    assert!(CUT < frame_len(KIND));

    let mut d: Deserializer<64, Frame<Tail>> = Deserializer::new(64);
    d.input(&buf[..CUT]).unwrap();
    match d.deserialize_next() {
        Ok(None) => {}
        Ok(Some(f)) => {
            std::mem::forget(f);
            panic!("C14 chunking: a frame was produced before all of its bytes arrived")
        }
        Err(e) => {
            std::mem::forget(e);
            panic!("C14 chunking: error on a proper prefix of a valid frame")
        }
    }
    assert!(d.len() == CUT, "C14 chunking: incomplete attempt changed the number of buffered bytes");
    let mut i = 0;
    for b in d.unparsed() {
        assert!(b == buf[i], "C14 chunking: incomplete attempt changed the buffered bytes");
        i += 1;
    }
    assert!(i == CUT);
    kani::cover!(true);
    std::mem::forget(d);
}

fn complete_then<const KIND: u8, const NEXT: u8, const EXTRA: usize>() {
    let f1 = frame_of(KIND, EXTRA);
    let f2 = frame_of(NEXT, EXTRA + 1);
    let mut buf = [0u8; 16];
    let l1 = encode_into(&f1, &mut buf[..]);
    assert!(l1 == frame_len(KIND));
    let l2 = encode_into(&f2, &mut buf[frame_len(KIND)..]);
    assert!(l2 == frame_len(NEXT));
    let total = frame_len(KIND) + EXTRA;

    let mut d: Deserializer<64, Frame<Tail>> = Deserializer::new(64);
    d.input(&buf[..total]).unwrap();
    match d.deserialize_next() {
        Ok(Some(f)) => {
            assert!(f == f1, "C14 chunking: decoded frame differs from the encoded one");
            std::mem::forget(f);
        }
        Ok(None) => panic!("C14 chunking: complete frame reported as incomplete"),
        Err(e) => {
            std::mem::forget(e);
            panic!("C14 chunking: error on a valid frame")
        }
    }
    assert!(d.len() == EXTRA, "C14 chunking: wrong number of bytes consumed");
    if EXTRA == frame_len(NEXT) {
        match d.deserialize_next() {
            Ok(Some(g)) => {
                assert!(g == f2, "C14 chunking: second frame differs");
                std::mem::forget(g);
            }
            Ok(None) => panic!("C14 chunking: complete second frame reported as incomplete"),
            Err(e) => {
                std::mem::forget(e);
                panic!("C14 chunking: error on a valid second frame")
            }
        }
        assert!(d.is_empty(), "C14 chunking: bytes left over");
    } else {
        let mut i = 0;
        for b in d.unparsed() {
            assert!(b == buf[frame_len(KIND) + i], "C14 chunking: wrong bytes left buffered");
            i += 1;
        }
        assert!(i == EXTRA);
    }
    kani::cover!(true);
    std::mem::forget(d);
    std::mem::forget(f1);
    std::mem::forget(f2);
}

/// Premise of the induction from steps (A) and (B): the deserializer's state is nothing but its
/// buffer of unparsed bytes.  A run that combines both steps at the interesting points (buffer
/// length after the failed attempt == length of the following frame) exhausts 25 GB, so the
/// premise is checked structurally instead: the type has no room for any other state (a
/// `PhantomData` aside).  A hidden cache - e.g. one keyed on the buffer length, seeded change
/// C14-b - changes the size of the type and fails this harness.  Because a benign extra field would
/// fail it too, a failure is reported as *inconclusive* (exit 2), not as a violation.
#[kani::proof]
fn c14_deserializer_state_is_buffer_only() {
    assert!(
        std::mem::size_of::<Deserializer<64, Frame<Tail>>>() == std::mem::size_of::<crate::bounded::BoundedVec<u8, 64>>(),
        "PREMISE C14 chunking: the deserializer carries state besides its unparsed bytes - the two inductive steps no longer compose, chunking independence is not decided"
    );
    assert!(std::mem::size_of::<crate::bounded::BoundedVec<u8, 64>>() == std::mem::size_of::<Vec<u8>>());
    kani::cover!(true);
}

macro_rules! prefix_harness {
    ($name:ident, $kind:expr, $cut:expr) => {
        #[kani::proof]
        #[kani::unwind(18)]
        fn $name() {
            prefix_identity::<{ $kind }, { $cut }>()
        }
    };
}
macro_rules! complete_harness {
    ($name:ident, $kind:expr, $next:expr, $extra:expr) => {
        #[kani::proof]
        #[kani::unwind(18)]
        fn $name() {
            complete_then::<{ $kind }, { $next }, { $extra }>()
        }
    };
}
include!("/verif/harness/incrate/wire_c14_layouts.rs");

/// A gossip frame whose declared payload (`L` bytes, all present) holds a truncated or unknown
/// inner message is a *complete but invalid* frame: the deserializer must report an error (or a
/// frame), never "incomplete" (`Ok(None)`), because no further input can complete it and the
/// stream would stall behind it.
fn complete_invalid<M: Decode, const L: usize>() {
    let mut buf = [0u8; 12];
    buf[..4].copy_from_slice(&[b'r', b'a', b'd', crate::PROTOCOL_VERSION]);
    buf[4] = 0b010 | (L as u8 & 1); // gossip stream; initiator bit concrete per instance
    buf[5] = L as u8;
    let payload: [u8; L] = kani::any();
    buf[6..6 + L].copy_from_slice(&payload);

    let mut d: Deserializer<64, Frame<M>> = Deserializer::new(64);
    d.input(&buf[..6 + L]).unwrap();
    let r = d.deserialize_next();
    assert!(
        !matches!(r, Ok(None)),
        "C14: complete but invalid frame reported as incomplete data"
    );
    kani::cover!(r.is_err());
    std::mem::forget(r);
    std::mem::forget(d);
}

macro_rules! complete_invalid_harness {
    ($name:ident, $m:ty, $l:expr) => {
        #[kani::proof]
        #[kani::unwind(12)]
        #[kani::stub(crate::git::raw::Oid::from_bytes, super::stubs::oid_from_bytes)]
        fn $name() {
            complete_invalid::<$m, { $l }>()
        }
    };
}
complete_invalid_harness!(c14_complete_invalid_tail_l0, Tail, 0);
complete_invalid_harness!(c14_complete_invalid_msg_l0, Message, 0);
complete_invalid_harness!(c14_complete_invalid_msg_l1, Message, 1);
complete_invalid_harness!(c14_complete_invalid_msg_l2, Message, 2);
complete_invalid_harness!(c14_complete_invalid_msg_l3, Message, 3);
complete_invalid_harness!(c14_complete_invalid_msg_l4, Message, 4);

/// Native replays of solver counterexamples (written by `/verif/bin/verif`, compiled only by
/// `cargo kani playback`, i.e. `cfg(kani)` + `cfg(test)`).
#[cfg(test)]
mod replay {
    use super::*;
    include!("/verif/replays/active/wire_c14.rs");
}
