//! C13 — no input from a remote peer can crash the node: wire decoders.
//!
//! Every harness feeds symbolic bytes to one real decoder and asserts nothing but the absence
//! of panics, aborts, arithmetic overflow, out-of-bounds accesses and failed `assert!`s /
//! `unwrap`s (Kani's default checks + `debug_assert`).
use crate::service::filter::Filter;
use crate::service::message::{InventoryAnnouncement, NodeAnnouncement, RefsAnnouncement};
use crate::wire::{self, Decode, Message};
use std::io;

macro_rules! no_panic_decode {
    ($name:ident, $t:ty, $n:expr, $unwind:expr) => {
        #[kani::proof]
        #[kani::unwind($unwind)]
        #[kani::stub(crate::git::raw::Oid::from_bytes, super::stubs::oid_from_bytes)]
        fn $name() {
            let bytes: [u8; $n] = kani::any();
            let len: usize = kani::any();
            kani::assume(len <= $n);
            let mut r = io::Cursor::new(&bytes[..len]);
            let res = <$t as Decode>::decode(&mut r);
            kani::cover!(res.is_ok() || res.is_err());
            std::mem::forget(res);
        }
    };
}

/// Variant with a concrete input length and a concrete first byte (the length prefix of
/// strings): the layout is concrete, the contents symbolic.
macro_rules! no_panic_decode_layout {
    ($name:ident, $t:ty, $n:expr, $first:expr, $unwind:expr) => {
        #[kani::proof]
        #[kani::unwind($unwind)]
        #[kani::stub(crate::git::raw::Oid::from_bytes, super::stubs::oid_from_bytes)]
        fn $name() {
            let mut bytes: [u8; $n] = kani::any();
            bytes[0] = $first;
            let mut r = io::Cursor::new(&bytes[..]);
            let res = <$t as Decode>::decode(&mut r);
            kani::cover!(res.is_ok() || res.is_err());
            std::mem::forget(res);
        }
    };
}
no_panic_decode_layout!(c13_decode_alias_l3, crate::node::Alias, 4, 3, 8);
no_panic_decode_layout!(c13_decode_alias_l2, crate::node::Alias, 3, 2, 8);
no_panic_decode_layout!(c13_decode_string_l3, String, 4, 3, 8);

// Decoders over vectors and strings with symbolic length prefixes (node / inventory / refs
// announcements, addresses, user agents) do not finish in 15 min and are outside the claim.
no_panic_decode!(c13_decode_filter, Filter, 8, 12);
no_panic_decode!(c13_decode_info, crate::service::message::Info, 46, 50);
no_panic_decode!(c13_decode_zero_bytes, crate::service::message::ZeroBytes, 12, 16);
no_panic_decode!(c13_decode_timestamp, crate::Timestamp, 8, 12);
no_panic_decode!(c13_decode_node_id, crate::service::NodeId, 32, 36);

#[cfg(test)]
mod replay {
    use super::*;
    include!("/verif/replays/active/wire_c13.rs");
}
