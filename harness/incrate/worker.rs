//! Kani harnesses compiled inside `radicle_node::worker` (module `verif_kani`).
//!
//! Nothing is registered here: the git request header parser (`upload_pack::pktline`) could not be
//! encoded - with a symbolic *or* literal length field CBMC does not propagate the header digits
//! through `read_exact` into `str::from_utf8` / `usize::from_str_radix`, treats the packet length
//! as unknown and unwinds UTF-8 validation and `memchr` over the 1024-byte buffer; no layout
//! finished within 15 min (DESIGN §8).  C12 and the pkt-line part of C13 are therefore outside.
