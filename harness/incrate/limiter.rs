//! Kani harnesses compiled inside radicle-node (module `verif_kani` of the hooked file).
