//! Kani harnesses compiled inside `radicle_node::service::limiter` (module `verif_kani`).
//! C17 — rate limiting admits at most capacity plus refill.
#![allow(dead_code, unused_imports)]
use super::*;
use std::net::{IpAddr, Ipv4Addr, Ipv6Addr};

/// `K` requests at arbitrary non-decreasing times against one bucket created - as
/// `RateLimiter::limit` does - at the time of the first request.  For every sub-window `i..=j` of
/// the requests: admitted(i..=j) <= capacity + rate * floor((t_j - t_i) / 1s).
/// The comparison is made in f64 with a relative slack of 1e-9 (K roundings of 2^-53 each are far
/// below it); the slack is part of the claim.
fn window_bound<const K: usize>(rate: f64) {
    let cap: usize = kani::any();
    kani::assume(cap <= 1 << 20);
    let t0: u64 = kani::any();
    kani::assume(t0 < 1 << 40);
    let mut t = [0u64; K];
    let mut ok = [false; K];
    t[0] = t0;
    let mut b = TokenBucket::new(cap, rate, LocalTime::from_millis(t0 as u128));
    let mut i = 0;
    while i < K {
        if i > 0 {
            let d: u64 = kani::any();
            kani::assume(d < 1 << 32); // gaps up to ~49 days
            t[i] = t[i - 1] + d;
        }
        ok[i] = b.take(LocalTime::from_millis(t[i] as u128));
        assert!(b.tokens >= 0.0 && b.tokens <= b.capacity, "C17: token count outside [0, capacity]");
        i += 1;
    }
    let mut i = 0;
    while i < K {
        let mut admitted = 0u32;
        let mut j = i;
        while j < K {
            if ok[j] {
                admitted += 1;
            }
            let secs = (t[j] - t[i]) / 1000;
            let bound = cap as f64 + rate * secs as f64;
            assert!(
                (admitted as f64) <= bound * (1.0 + 1e-9) + 1e-9,
                "C17: more requests admitted in a window than capacity + rate * seconds"
            );
            j += 1;
        }
        i += 1;
    }
    kani::cover!(ok[0] && !ok[K - 1]); // burst exhausted
    kani::cover!(rate == 0.0 || (!ok[K - 2] && ok[K - 1])); // refilled after being limited
}

macro_rules! window_harness {
    ($name:ident, $k:expr, $rate:expr) => {
        #[kani::proof]
        #[kani::unwind(8)]
        fn $name() {
            window_bound::<{ $k }>($rate)
        }
    };
}
window_harness!(c17_window_k3_rate_0, 3, 0.0);
window_harness!(c17_window_k3_rate_0p1, 3, 0.1);
window_harness!(c17_window_k3_rate_0p2, 3, 0.2);
window_harness!(c17_window_k3_rate_third, 3, 1.0 / 3.0);
window_harness!(c17_window_k3_rate_0p5, 3, 0.5);
window_harness!(c17_window_k3_rate_1, 3, 1.0);
window_harness!(c17_window_k3_rate_2p5, 3, 2.5);
window_harness!(c17_window_k3_rate_10, 3, 10.0);
window_harness!(c17_window_k4_rate_0p2, 4, 0.2);
window_harness!(c17_window_k4_rate_1, 4, 1.0);
window_harness!(c17_window_k5_rate_0p2, 5, 0.2);
window_harness!(c17_window_k5_rate_2p5, 5, 2.5);

/// The address classifier behind "non-routable addresses are never limited": for every IPv4
/// address, `address::is_routable` is false exactly on private / loopback / link-local /
/// broadcast / documentation / 0.0.0.0/8 addresses (192.0.0.9 and 192.0.0.10 excepted), and
/// every IPv6 address counts as routable.  `RateLimiter::limit` itself (HashMap / HashSet state)
/// is not encodable (DESIGN §8); that it returns `false` right after this test is read off the
/// source and is outside the claim.
#[kani::proof]
#[kani::unwind(6)]
fn c17_is_routable_classifies_every_ipv4() {
    let o: [u8; 4] = kani::any();
    let ip = Ipv4Addr::new(o[0], o[1], o[2], o[3]);
    let special = o == [192, 0, 0, 9] || o == [192, 0, 0, 10];
    let non_routable = o[0] == 10
        || (o[0] == 172 && (o[1] & 0xf0) == 16)
        || (o[0] == 192 && o[1] == 168)
        || o[0] == 127
        || (o[0] == 169 && o[1] == 254)
        || o == [255, 255, 255, 255]
        || (o[0] == 192 && o[1] == 0 && o[2] == 2)
        || (o[0] == 198 && o[1] == 51 && o[2] == 100)
        || (o[0] == 203 && o[1] == 0 && o[2] == 113)
        || o[0] == 0;
    let r = address::is_routable(&IpAddr::V4(ip));
    assert!(r == (special || !non_routable), "C17: is_routable disagrees with the documented address classes");
    kani::cover!(!r && o[0] == 172);
    kani::cover!(r && o[0] == 172);
    let v6: [u8; 16] = kani::any();
    assert!(address::is_routable(&IpAddr::V6(Ipv6Addr::from(v6))));
}

struct Tok(usize, f64);
impl AsTokens for Tok {
    fn capacity(&self) -> usize {
        self.0
    }
    fn rate(&self) -> f64 {
        self.1
    }
}

#[cfg(test)]
mod replay {
    use super::*;
    include!("/verif/replays/active/limiter.rs");
}
