"""Per-property claim texts for MANIFEST.json (see tools/gen_manifest.py)."""

HOOK_COMMITS = ["1decc3f", "ccd7906", "6f54a9a"]

ENGINES = [
    {"name": "sql-smt", "path": "/verif/bin/sqlsmt.py", "serves_properties": ["C24"],
     "kind_free_text": "SQL-in-Rust -> SMT-LIB2 translator (regenerated from /repo on every run), z3 4.8.12 + cvc5 1.0 diffed, models replayed on real sqlite"},
    {"name": "kani-cbmc", "path": "/verif/bin/verif", "serves_properties": [],
     "kind_free_text": "Kani 0.68 / CBMC 6.11 bounded model checking of the compiled Rust code: #[kani::proof] harnesses over kani::any() inputs, unwinding assertions on, CaDiCaL; counterexamples replayed natively with cargo kani playback"},
]

NOTES = ("All checks are solver-based (bounded model checking of the real code). Exit 2 = inconclusive (timeout, solver out of memory, vacuous cover, "
         "non-reproducing counterexample) and is never reported as success. Known findings: /verif/known_findings.txt.")

_T = "bounded model checking (Kani/CBMC, SAT) of the real functions"

CLAIMS = {
    "C14": {
        "technique": _T + " with an allocation-oracle stub; chunking by two inductive steps over the deserializer state",
        "text": "For every value of the symbolic inputs within the stated bounds the SAT solver shows: varint round-trip over the full 62-bit range; no vec![x; n] request larger than bytes received + inbox size (allocation oracle) for every 9/12-byte input prefix; a complete frame with a truncated/unknown inner message is never reported as incomplete; and the two inductive steps of chunking independence (proper prefix = no-op, complete frame consumes exactly itself) for 5 frame layouts x every cut. Bounded: payloads <= 2 bytes, 1-byte stream ids.",
        "note": "Trusted: Kani/CBMC and their model of std and the allocator; the harness-defined message type Tail; the git2::Oid::from_bytes stub; the paper induction from the two steps to arbitrary chunkings. Quick tier runs 8 fixed + 4 seed-rotated of the 133 chunking layouts; thorough runs all.",
    },
}

CLAIMS["C29"] = {
    "technique": _T + ": one inductive step of Service::timestamp from an arbitrary (clock, last_timestamp) state + 3-step unrolling",
    "text": "The solver shows, for every 64-bit clock reading and every previously signed timestamp < u64::MAX, that Service::timestamp returns a value strictly greater than the previous one and remembers it; by induction over calls this covers runs of any length and any clock behaviour (forward, stalled, backward). A 3-call unrolling with arbitrary clocks in between cross-checks the induction.",
    "note": "Trusted: Kani/CBMC; the partially initialised Service (only clock/last_timestamp written). Outside: last_timestamp == u64::MAX; that all signing sites use Service::timestamp (read off the source).",
}

CLAIMS["C17"] = {
    "technique": _T + " (bit-precise IEEE-754): k-step unrolling of TokenBucket::take over symbolic times and capacity, every sub-window asserted",
    "text": "For 8 concrete refill rates, every capacity <= 2^20 and every non-decreasing timeline of 3 (thorough: 4 and 5) requests with 64-bit millisecond timestamps, the solver shows that each sub-window admits at most capacity + rate * whole seconds and that the token count stays in [0, capacity]; plus the IPv4/IPv6 classifier behind the non-routable exemption for every address, and - on a shadow of limiter.rs with two-slot hash-container models - that a bypassed node or a non-routable address is never limited whatever request preceded it, while an ordinary request is limited exactly when the budget is spent.",
    "note": "Trusted: CBMC's floating-point encoding; 1e-9 relative slack in the f64 comparison. Outside: other rates, longer timelines, more than one host / two nodes in RateLimiter::limit (hash containers are two-slot models there), backwards clocks (precondition established by Service::tick).",
}

CLAIMS["C24"] = {
    "engine": "sql-smt",
    "technique": "SQL statements extracted from the store functions, translated to SMT-LIB2 transition relations over an arbitrary pre-state row; negated model properties decided by z3 and cvc5 (diffed); models replayed on real sqlite",
    "text": "For each of 17 store statements (routing add/remove/prune, sync status, cached refs set/delete, follow/seed/unblock policies, announcements store/prune) the solvers show unsat for the negation of its simple-model property over EVERY pre-state row and EVERY parameter value in the i64 range: timestamps only increase, prune spares the ignored node and newer entries, values move only to strictly newer + different, policies reflect the last write, announcements are replaced only by strictly newer ones and a row id is returned exactly then. One-step induction over a table viewed as key -> optional row covers operation sequences of any length.",
    "note": "Trusted: sqlite's semantics for the UPSERT/DELETE/UPDATE subset as encoded (validated each run against real sqlite 3.40 on ~400 boundary vectors and on every solver model); the Rust glue that binds parameters and maps results is outside; columns are non-NULL.",
}

CLAIMS["C27"] = {
    "technique": _T + " of the agent client against a canned-response stream, one harness per response layout; symbolic key/signature bytes for the round trips",
    "text": "For every response layout listed (lengths 0..32, identities answers and sign responses, count field concrete per layout, all remaining bytes symbolic) the solver shows that request_identities / sign / query_extension return a value or an error and never panic (index, slice-length, overflow, unwrap), and that every 32-byte public key and 64-byte signature written in the SSH wire encoding reads back unchanged with the reader fully consumed.",
    "note": "Trusted: Kani/CBMC; stubs for String::from_utf8_lossy and zeroize's spare-capacity wiping. Outside: longer responses, the Unix socket stream, SecretKey encoding.",
}

CLAIMS["C22"] = {
    "technique": _T + " (radicle-crdt shadowed with std B-trees replaced by a checked sorted-slot model): three symbolic operands per law harness",
    "text": "For all u8 clocks and values the solver shows associativity, commutativity and idempotence of merge for Max, Min, bool, Option, Redactable, LWWReg (fully symbolic scalars) and for GMap, GSet, LWWMap, LWWSet on single-key operands in every absent/insert/remove layout (70 layouts), that LWW structures expose the value of the greatest clock with insertion winning at equal clocks, and that merging 2-key maps is pointwise in the keys (frame property, 128 layouts, 6 per quick run).",
    "note": "Trusted: Kani/CBMC; the vcoll container model (differentially checked against std at size <= 2); the paper step from single-key laws + frame property to multi-key maps. Only `use std::collections` lines of the copied sources are rewritten; function bodies are those of /repo.",
}

CLAIMS["C25"] = {
    "technique": _T + " (announce.rs shadowed into a shim crate with bit-mask sets): fully symbolic configuration + k symbolic sync results against a reference target predicate",
    "text": "For every local node, every choice of preferred / synced / unsynced sets over 4 nodes, every replication factor and every sequence of up to 3 sync results (local node, unknown nodes and repeats included) the solver shows that the announcer reports success exactly when the reference target is reached (computed over distinct nodes), never counts or hands out the local node, reports progress over distinct nodes, and that timed_out reports success exactly then. Fetcher (driven the documented way, 1 round quick / up to 3 thorough): next_node never returns the local node or a node that already has a result, fetch_complete / finish report success exactly when every preferred seed succeeded or the replica bound is reached.",
    "note": "Trusted: Kani/CBMC; the bit-mask container and 6-slot queue models; NodeId abstracted to a 1-byte id; FetchResults/FetchResult/Address are models. Function bodies are those of /repo's announce.rs, fetch.rs and sync.rs.",
}

CLAIMS["C03"] = {
    "technique": _T + " (canonical.rs shadowed into a shim crate; the git repository is a symbolic commit graph behind merge_base)",
    "text": "For every DAG on 4 commits, every assignment of tips to 2, 3 and 4 delegates (several on one commit included), every threshold and every admissible merge_base answer, the solver shows that a returned head is a delegate tip in the history of at least threshold distinct delegates with no other sufficiently supported tip descending from it, that NoCandidates is returned only when no tip has enough distinct supporters, and that Diverging is returned only when the sufficiently supported tips are not a chain.",
    "note": "Trusted: Kani/CBMC; the symbolic repository (merge_base contract) and the 1-byte id abstraction; the 4-slot map model. The function body of quorum is /repo's.",
}

CLAIMS["C19"] = {
    "technique": _T + " of the validation kernel (RawDoc::verified via the cfg(kani) constructor RawDoc::verif_raw, Delegates::new, Threshold::new, Version::new)",
    "text": "The solver shows for every u32 that exactly versions 1..=IDENTITY_VERSION are accepted, and for every usize threshold and every equality pattern of up to 4 delegate entries over 3 keys that Delegates::new rejects only the empty list and keeps exactly the distinct delegates (first occurrence first), and that Threshold::new accepts exactly 1..=#delegates. This is the kernel every decoding path funnels through (TryFrom<RawDoc>); JSON decoding, canonical encoding and the repository-id hash are outside.",
    "note": "Trusted: Kani/CBMC. Partial claim: validation kernel only; keys concrete with enumerated equality patterns; the 255-delegate limit is not reached.",
}
CLAIMS["C21"] = {
    "technique": _T + " of Alias::from_str on fully symbolic bytes filtered by the real UTF-8 validator",
    "text": "For every string of 1, 2 (thorough: 3) bytes the solver shows that parsing an alias never panics, that an accepted alias prints to exactly the input and re-parses to itself, that empty input and ASCII control / white-space bytes are rejected and that printable ASCII is accepted; and that PublicKey::from_str never panics and returns exactly the 32 key bytes for every decoded multibase payload of 0-3, 33 and 34 symbolic bytes (base layer stubbed). Partial claim: aliases and the post-base-58 part of public keys.",
    "note": "Trusted: Kani/CBMC; the multibase::decode stub. The base-58 layer, printing of keys, DIDs text prefix, repository ids and user agents are outside (see evidence.outside_claim).",
}

CLAIMS["C13"] = {
    "technique": _T + " of the wire decoders on symbolic bytes (fixed-size decoders with symbolic prefix length; strings and messages by literal layout)",
    "text": "Partial claim: for the decoders listed (timestamps, node ids, subscription filters, Info, ping/pong padding, aliases and strings up to 3 bytes, message heads with unknown types, Subscribe with every rejected filter size class) the solver shows that no input within the bounds makes the decoder panic, overflow, index out of bounds or fail an assert. Together with the C14 harnesses (frames, varints, payloads) this covers the first-handling code of inbound bytes; announcements with vectors, the git request header parser and everything at Service level are outside.",
    "note": "Trusted: Kani/CBMC; git2::Oid::from_bytes stub. Schedules and connection states are outside: Kani has no concurrency and the Service state is hash maps + sqlite.",
}
CLAIMS["C15"] = {
    "technique": _T + " of wire::deserialize followed by re-encoding, one harness per literal message layout with symbolic content bytes",
    "text": "Partial claim: for Ping, Pong, Info, unknown type tags, trailing bytes and rejected Subscribe filter sizes the solver shows that bytes which decode successfully re-encode to exactly the same bytes (and within the 16-bit size limit), for every value of the content bytes. Announcements are outside.",
    "note": "Trusted: Kani/CBMC; git2::Oid::from_bytes stub. Known finding: ping/pong padding bytes are not checked to be zero (see known_findings.txt).",
}

NOT_APPLICABLE = {
    "C01": "post-fetch refdb contents vs signed refs: decided inside FetchState::run over gix transport, libgit2 ref transactions and ed25519 signatures (FFI / curve arithmetic) - not encodable for CBMC/SMT within reach (DESIGN §7)",
    "C02": "threshold gate and Behind/Diverged handling are statements inside FetchState::run between git I/O calls; no function boundary to drive symbolically (DESIGN §7)",
    "C04": "Identity::action runs inside COB evaluation over git blobs, serde_json documents and signature verification (DESIGN §7)",
    "C05": "needs ChangeGraph::load from git commits and T::apply over JSON actions and signatures (DESIGN §7)",
    "C06": "same as C05: COB evaluation over git storage (DESIGN §7)",
    "C07": "authorization rules live in Issue::action / Patch::action over JSON-decoded actions, Doc lookups by git oid and ancestry queries (DESIGN §7)",
    "C08": "patch merge threshold is decided in Patch::action over git ancestry and identity documents loaded from storage (DESIGN §7)",
    "C09": "cache answers come from sqlite json_tree queries (C engine behind FFI) and the reference side is git evaluation (DESIGN §7)",
    "C10": "Service::handle_announcement / relay over HashMap state keyed by 32-byte ids, sqlite stores and signed messages; a 2-entry HashMap does not finish under CBMC (DESIGN §7, §8); the strictly-newer clause is decided under C24",
    "C11": "same Service state as C10 (hash maps, sqlite, signatures) (DESIGN §7)",
    "C12": "is_authorized needs Storage::repository + identity_doc (git2 handles, serde_json Doc) and the request header parser (upload_pack::pktline) does not finish under CBMC in any layout (15 min, DESIGN §8): neither half of the decision kernel is encodable within reach",
    "C23": "radicle-dag: std B-trees, VecDeque and the recursive visit() over a symbolic dependents set. With bit-mask containers and only the 3 possible edges of a 3-node graph symbolic, sorted() alone does not finish in 15 min (recursion unwound to the bound with 4 slots per level); the earlier sorted-Vec shadows did not finish 3-node remove/merge in 15 min either (DESIGN §8)",
    "C26": "truncation runs unicode-segmentation's grapheme cursor and unicode-display-width's tables; CBMC executes their binary searches symbolically even for a concrete one-character text (a single space: > 1200 loop unwindings, no result in 20 min), DESIGN §8",
    "C16": "interleavings across Service and Wire (reactor, hash maps, channels); Kani has no concurrency and the sequential machine sits on the same hash maps (DESIGN §7)",
    "C18": "canonical JSON is produced by serde_json's serializer through Box<dyn Write>, BTreeMap<Vec<u8>,Vec<u8>> buffering and Unicode NFC tables; two symbolic characters exceed the budget (DESIGN §7)",
    "C20": "signed-refs text parses object ids through libgit2 (git_oid_fromstr, FFI) and the second half of the statement is ed25519 verification (DESIGN §7)",
    "C28": "Storage::clean is directory removal plus libgit2 remote enumeration (filesystem + FFI) (DESIGN §7)",
    "C30": "the inputs are diffs computed by libgit2 between trees; the decoder alone does not state the property (DESIGN §7)",
}

# Planned in DESIGN.md §4 but the check is not built (yet): listed as not applicable until it is.
_P = "solver-based check planned in DESIGN.md §4 but not built yet in this tree; not claimed until it runs"
PENDING = {k: _P for k in [k for k in ["C03", "C13", "C15", "C17", "C19", "C21", "C22", "C24", "C25", "C27", "C29"] if k not in CLAIMS]}
