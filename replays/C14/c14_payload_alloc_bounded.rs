// property=C14 harness=c14_payload_alloc_bounded engine=node replay_file=wire_c14
// failed checks:
//   C14 allocation oracle: requested size exceeds bytes received + constant @ ../verif/harness/incrate/wire_c14.rs:38:9 in function std::vec::from_elem::<u8>
// native outcome: {"kani_concrete_playback_c14_payload_alloc_bounded_16904897770349460624": {"dev": "fails", "release": "fails"}}
// re-run: /verif/bin/verif --replay /verif/replays/C14/c14_payload_alloc_bounded.rs

/// Test generated for harness `wire::verif_kani::c14::c14_payload_alloc_bounded` 
///
/// Check for `assertion`: ""C14 allocation oracle: requested size exceeds bytes received + constant""
///
/// # Warning
///
/// Concrete playback tests combined with stubs or contracts is highly
/// experimental, and subject to change.
///
/// The original harness has stubs which are not applied to this test.
/// This may cause a mismatch of non-deterministic values if the stub
/// creates any non-deterministic value.
/// The execution path may also differ, which can be used to refine the stub
/// logic.

#[test]
fn kani_concrete_playback_c14_payload_alloc_bounded_16904897770349460624() {
    let concrete_vals: Vec<Vec<u8>> = vec![
        // 64
        vec![64],
        // 23
        vec![23],
        // 23
        vec![23],
        // 23
        vec![23],
        // 23
        vec![23],
        // 23
        vec![23],
        // 23
        vec![23],
        // 23
        vec![23],
        // 23
        vec![23],
        // 2ul
        vec![2, 0, 0, 0, 0, 0, 0, 0],
    ];
    kani::concrete_playback_run(concrete_vals, c14_payload_alloc_bounded);
}
