"""K-shadow engine (DESIGN §2): regenerate shadow crates from /repo's current sources.

A shadow crate is a byte-for-byte copy of the source files of a leaf crate (or of single files)
in which ONLY the `use std::collections::...;` lines are rewritten to `use crate::vcoll::...;`.
The rewrite is refused (Inconclusive -> exit 2) if a `std::collections` path survives outside
`#[cfg(test)]` code, so an upstream change can never silently fall out of the encoding.
Files are only written when their content changes (keeps cargo fingerprints stable)."""
import os
import re
import shutil

VERIF = os.path.dirname(os.path.dirname(os.path.abspath(__file__)))
REPO = os.environ.get("VERIF_REPO", "/repo")
SHADOW = os.path.join(VERIF, ".cache", "shadow")


class ShadowError(Exception):
    pass


def write_if_changed(path, text):
    os.makedirs(os.path.dirname(path), exist_ok=True)
    if os.path.exists(path) and open(path).read() == text:
        return
    open(path, "w").write(text)


USE_RE = re.compile(r"^(\s*(?:pub\s+)?use\s+)std::collections::", re.M)


def rewrite_collections(text, name, extra_rules=()):
    body = text.split("#[cfg(test)]")[0]
    out = USE_RE.sub(r"\1crate::vcoll::", text)

    # nested form: `use std::{collections::{A, B}, ops::X, ...};`
    def nested(m):
        inner = m.group(2)
        cm = re.search(r"collections::(\{[^}]*\}|\w+)\s*,?", inner)
        if not cm:
            return m.group(0)
        rest = (inner[: cm.start()] + inner[cm.end():]).strip().rstrip(",")
        keep = f"{m.group(1)}std::{{{rest}}};" if rest.strip() else ""
        return f"{m.group(1)}crate::vcoll::{cm.group(1)};\n{keep}"

    out = re.sub(r"(?m)^(\s*(?:pub\s+)?use\s+)std::\{([^;]*)\};", nested, out)
    # the copied crate's own unit tests are switched off in the shadow (their dev-dependencies are
    # not available there; native replays compile the shadow with cfg(test))
    out = re.sub(r"#\[cfg\((?:test|any\(test[^\]]*)\)\]", "#[cfg(any())]", out)
    for pat, rep in extra_rules:
        out = re.sub(pat, rep, out)
    rest = out.split("#[cfg(any())]")[0]
    if "std::collections" in rest or re.search(r"(?<!vcoll::)\bcollections::", rest):
        raise ShadowError(f"{name}: a std::collections path outside a `use` line survives the rewrite; refusing to shadow")
    rules = ["`use std::collections::X` -> `use crate::vcoll::X`"] + [f"{p} -> {r}" for p, r in extra_rules]
    return out, rules, body != rest


def copy_tree_rewritten(src_dir, dst_dir, extra_rules=()):
    seen = set()
    for root, _, files in os.walk(src_dir):
        for f in files:
            if not f.endswith(".rs"):
                continue
            sp = os.path.join(root, f)
            rel = os.path.relpath(sp, src_dir)
            text, _, _ = rewrite_collections(open(sp).read(), rel, extra_rules)
            write_if_changed(os.path.join(dst_dir, rel), text)
            seen.add(rel)
    # remove stale files
    for root, _, files in os.walk(dst_dir):
        for f in files:
            rel = os.path.relpath(os.path.join(root, f), dst_dir)
            if rel.endswith(".rs") and rel not in seen and not rel.startswith("verif_") and rel != "vcoll.rs":
                os.remove(os.path.join(root, f))


def prepare_crdt(engine):
    """Leaf-crate shadow of radicle-crdt."""
    dst = os.path.join(SHADOW, "crdt")
    src = os.path.join(REPO, "crates", "radicle-crdt", "src")
    copy_tree_rewritten(src, os.path.join(dst, "src"))
    lib = open(os.path.join(dst, "src", "lib.rs")).read()
    hook = '\npub mod vcoll;\n#[cfg(kani)]\n#[path = "/verif/harness/shadow/crdt_vcoll_harness.rs"]\nmod verif_kani_vcoll;\n'
    if hook not in lib:
        write_if_changed(os.path.join(dst, "src", "lib.rs"), lib + hook)
    shutil.copyfile(os.path.join(VERIF, "harness", "shadow", "vcoll.rs"), os.path.join(dst, "src", "vcoll.rs")) if not os.path.exists(os.path.join(dst, "src", "vcoll.rs")) or open(os.path.join(dst, "src", "vcoll.rs")).read() != open(os.path.join(VERIF, "harness", "shadow", "vcoll.rs")).read() else None
    write_if_changed(os.path.join(dst, "Cargo.toml"), f'''[package]
name = "radicle-crdt"
version = "0.1.0"
edition = "2021"
publish = false

[features]
test = []

[dependencies]
num-traits = {{ version = "0.2.15", default-features = false, features = ["std"] }}
radicle-crypto = {{ path = "{REPO}/crates/radicle-crypto" }}
serde = {{ version = "1.0", features = ["derive"] }}
thiserror = "1.0"

[workspace]
''')
    shutil.copyfile(os.path.join(REPO, "Cargo.lock"), os.path.join(dst, "Cargo.lock")) if not os.path.exists(os.path.join(dst, "Cargo.lock")) else None


def _common_manifest(dst, name, deps=""):
    write_if_changed(os.path.join(dst, "Cargo.toml"), f'''[package]
name = "{name}"
version = "0.0.0"
edition = "2021"
publish = false

[dependencies]
thiserror = "1.0"
{deps}
[workspace]
''')
    if not os.path.exists(os.path.join(dst, "Cargo.lock")):
        shutil.copyfile(os.path.join(REPO, "Cargo.lock"), os.path.join(dst, "Cargo.lock"))


def _copy(src, dst):
    write_if_changed(dst, open(src).read())


def prepare_sync(engine):
    """Single-file shadows of radicle/src/node/sync.rs, sync/announce.rs and sync/fetch.rs inside a shim crate that
    provides the few names they import (NodeId as a 1-byte ordered id, Doc/Visibility for
    PrivateNetwork::private_repo)."""
    dst = os.path.join(SHADOW, "sync")
    base = os.path.join(REPO, "crates", "radicle", "src", "node")
    text, _, _ = rewrite_collections(open(os.path.join(base, "sync.rs")).read(), "sync.rs")
    write_if_changed(os.path.join(dst, "src", "node", "sync.rs"), text)
    text, _, _ = rewrite_collections(open(os.path.join(base, "sync", "fetch.rs")).read(), "fetch.rs")
    write_if_changed(os.path.join(dst, "src", "node", "sync", "fetch.rs"), text)
    text, _, _ = rewrite_collections(open(os.path.join(base, "sync", "announce.rs")).read(), "announce.rs")
    write_if_changed(os.path.join(dst, "src", "node", "sync", "announce.rs"), text)
    _copy(os.path.join(VERIF, "harness", "shadow", "vbits.rs"), os.path.join(dst, "src", "vcoll.rs"))
    _copy(os.path.join(VERIF, "harness", "shadow", "sync_shim.rs"), os.path.join(dst, "src", "lib.rs"))
    _common_manifest(dst, "verif-shadow-sync")


def prepare_canonical(engine):
    """Single-file shadow of radicle/src/git/canonical.rs inside a shim crate (Did/Oid as 1-byte
    ids, raw::Repository as a symbolic commit graph)."""
    dst = os.path.join(SHADOW, "canonical")
    src = os.path.join(REPO, "crates", "radicle", "src", "git", "canonical.rs")
    text, _, _ = rewrite_collections(open(src).read(), "canonical.rs")
    # add-only: constructor / accessor for the private fields (the real constructors read refs from storage)
    text += "\n#[cfg(kani)]\nimpl Canonical {\n    pub fn verif_new(threshold: usize) -> Self { Canonical { tips: BTreeMap::new(), threshold } }\n    pub fn verif_threshold(&self) -> usize { self.threshold }\n}\n"
    write_if_changed(os.path.join(dst, "src", "git", "canonical.rs"), text)
    _copy(os.path.join(VERIF, "harness", "shadow", "vbits.rs"), os.path.join(dst, "src", "vcoll.rs"))
    _copy(os.path.join(VERIF, "harness", "shadow", "canonical_shim.rs"), os.path.join(dst, "src", "lib.rs"))
    _common_manifest(dst, "verif-shadow-canonical", deps='log = "0.4.17"\nnonempty = "0.9.0"\ngit2 = { path = "/verif/harness/shadow/shims/git2" }\n')



def prepare_limiter(engine):
    """Single-file shadow of radicle-node/src/service/limiter.rs: HashMap/HashSet imports rewritten to
    two-slot models; everything else it imports (HostName, NodeId, address::is_routable,
    config::RateLimit, LocalTime) is the real code, through path dependencies on /repo's crates."""
    dst = os.path.join(SHADOW, "limiter")
    src = os.path.join(REPO, "crates", "radicle-node", "src", "service", "limiter.rs")
    text, _, _ = rewrite_collections(open(src).read(), "limiter.rs")
    # the in-crate hook line of the real file points at the in-crate harness; drop it in the shadow
    text = re.sub(r"(?ms)^// Verification hook:.*?^mod verif_kani;\n", "", text)
    text += '\n#[cfg(kani)]\n#[path = "/verif/harness/shadow/limiter_harness.rs"]\nmod verif_kani;\n'
    write_if_changed(os.path.join(dst, "src", "limiter.rs"), text)
    _copy(os.path.join(VERIF, "harness", "shadow", "vhash.rs"), os.path.join(dst, "src", "vcoll.rs"))
    write_if_changed(os.path.join(dst, "src", "lib.rs"), "//! Shim crate around the single-file shadow of radicle-node's service/limiter.rs.\n#![allow(dead_code, unused_imports)]\npub mod vcoll;\npub mod limiter;\n")
    _common_manifest(dst, "verif-shadow-limiter", deps=f'localtime = "1.2.0"\nserde = {{ version = "1.0", features = ["derive"] }}\nradicle = {{ path = "{REPO}/crates/radicle" }}\n')
