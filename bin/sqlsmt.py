#!/usr/bin/env python3-vt
"""Engine S (DESIGN §2): SQL-in-Rust -> SMT-LIB2, for C24.

On every run:
  1. the SQL string literals of the named store functions and the CREATE TABLE texts are
     extracted from /repo's working tree;
  2. each statement (subset: UPSERT / DELETE [rowid IN (SELECT ... LIMIT)] / UPDATE) is parsed and
     turned into an SMT-LIB2 transition relation over ONE arbitrary key slot of its table
     (pre: exists? + column values, parameters arbitrary; post: exists' + column values', changed);
  3. the negated model property of that store operation is asserted; `unsat` from z3 4.8.12 AND
     cvc5 1.0 = the property holds for every pre-state row and every parameter value;
     `sat` = a concrete (pre-row, parameters) pair, which is replayed on a real sqlite engine with
     the schema and statement text of /repo before it is reported;
  4. the encoding itself is validated on every run against real sqlite on boundary vectors
     (translation validation of the translator).

Usage: sqlsmt.py C24 --tier quick|thorough --evidence PATH --logdir DIR [--seed N]
       sqlsmt.py --replay FILE.json
Exit: 0 held, 1 violation (after replay), 2 inconclusive.
"""
import argparse
import itertools
import json
import os
import re
import sqlite3
import subprocess
import sys
import time

REPO = os.environ.get("VERIF_REPO", "/repo")
VERIF = os.path.dirname(os.path.dirname(os.path.abspath(__file__)))

# --------------------------------------------------------------------------------------------
# 1. extraction

SCHEMA_FILES = [
    "crates/radicle/src/node/db/schema.sql",
    "crates/radicle/src/node/db/migrations/3.sql",
    "crates/radicle/src/node/policy/schema.sql",
]

# (operation id, file, function name, which statement kind to pick inside the function)
TARGETS = [
    ("routing.add_inventory", "crates/radicle/src/node/routing.rs", "add_inventory", "INSERT"),
    ("routing.remove_inventory", "crates/radicle/src/node/routing.rs", "remove_inventory", "DELETE"),
    ("routing.prune", "crates/radicle/src/node/routing.rs", "prune", "DELETE"),
    ("seed.synced", "crates/radicle/src/node/seed/store.rs", "synced", "INSERT"),
    ("refs.set", "crates/radicle/src/node/refs/store.rs", "set", "INSERT"),
    ("refs.delete", "crates/radicle/src/node/refs/store.rs", "delete", "DELETE"),
    ("policy.follow", "crates/radicle/src/node/policy/store.rs", "follow", "INSERT"),
    ("policy.seed", "crates/radicle/src/node/policy/store.rs", "seed", "INSERT"),
    ("policy.set_follow_policy", "crates/radicle/src/node/policy/store.rs", "set_follow_policy", "INSERT"),
    ("policy.set_seed_policy", "crates/radicle/src/node/policy/store.rs", "set_seed_policy", "INSERT"),
    ("policy.unfollow", "crates/radicle/src/node/policy/store.rs", "unfollow", "DELETE"),
    ("policy.unseed", "crates/radicle/src/node/policy/store.rs", "unseed", "DELETE"),
    ("policy.unblock_rid", "crates/radicle/src/node/policy/store.rs", "unblock_rid", "DELETE"),
    ("policy.unblock_nid", "crates/radicle/src/node/policy/store.rs", "unblock_nid", "DELETE"),
    ("routing.remove_inventories", "crates/radicle/src/node/routing.rs", "remove_inventories", "DELETE"),
    ("gossip.announced", "crates/radicle-node/src/service/gossip/store.rs", "announced", "INSERT"),
    ("gossip.prune", "crates/radicle-node/src/service/gossip/store.rs", "prune", "DELETE"),
]


class Inconclusive(Exception):
    pass


def rust_fn_body(src, name):
    """Text of the (last, i.e. impl rather than trait declaration) `fn name` with a body."""
    best = None
    for m in re.finditer(r"\bfn\s+" + re.escape(name) + r"\b", src):
        i = m.end()
        # find the opening brace of the body (skip the signature); a `;` first means no body
        depth_paren = 0
        j = i
        while j < len(src):
            c = src[j]
            if c == "(":
                depth_paren += 1
            elif c == ")":
                depth_paren -= 1
            elif c == ";" and depth_paren == 0:
                j = None
                break
            elif c == "{" and depth_paren == 0:
                break
            j += 1
        if j is None or j >= len(src):
            continue
        depth = 0
        k = j
        while k < len(src):
            if src[k] == "{":
                depth += 1
            elif src[k] == "}":
                depth -= 1
                if depth == 0:
                    break
            k += 1
        best = src[j : k + 1]
    if best is None:
        raise Inconclusive(f"function {name} not found")
    return best


def sql_literals(body):
    out = []
    for m in re.finditer(r"prepare\(\s*\"((?:[^\"\\]|\\.)*)\"", body, re.S):
        s = m.group(1)
        s = re.sub(r"\\\n\s*", "", s)
        out.append(re.sub(r"\s+", " ", s).strip())
    return out


def extract_statements():
    stmts = {}
    for op, path, fn, kind in TARGETS:
        src = open(os.path.join(REPO, path)).read()
        src = src.split("#[cfg(test)]")[0]
        body = rust_fn_body(src, fn)
        lits = [s for s in sql_literals(body) if s.upper().startswith(kind)]
        if len(lits) != 1:
            raise Inconclusive(f"{op}: expected exactly one {kind} statement in fn {fn} of {path}, found {len(lits)}")
        stmts[op] = {"sql": lits[0], "file": path, "fn": fn}
    return stmts


def parse_schema():
    tables = {}
    text = ""
    for f in SCHEMA_FILES:
        text += open(os.path.join(REPO, f)).read() + "\n"
    text_nc = re.sub(r"--[^\n]*", "", text)
    for m in re.finditer(r"create table if not exists \"([^\"]+)\"\s*\((.*?)\)\s*(strict)?\s*;", text_nc, re.S | re.I):
        name, body = m.group(1), m.group(2)
        cols, key = [], None
        # split on commas not inside parentheses
        parts, depth, cur = [], 0, ""
        for ch in body:
            if ch == "(":
                depth += 1
            if ch == ")":
                depth -= 1
            if ch == "," and depth == 0:
                parts.append(cur)
                cur = ""
            else:
                cur += ch
        parts.append(cur)
        for p in parts:
            p = p.strip()
            if not p:
                continue
            km = re.match(r"(primary key|unique)\s*\((.*)\)", p, re.I)
            if km:
                k = [c.strip().strip('"') for c in km.group(2).split(",")]
                if key is None or km.group(1).lower() == "primary key":
                    key = k
                continue
            cm = re.match(r"\"([^\"]+)\"\s+(\w+)(.*)", p, re.S)
            if not cm:
                raise Inconclusive(f"schema: cannot parse column definition {p!r} of table {name}")
            cname, ctype, rest = cm.group(1), cm.group(2).lower(), cm.group(3).lower()
            cols.append({"name": cname, "type": ctype, "notnull": "not null" in rest})
            if "primary key" in rest:
                key = [cname]
        if key is None:
            raise Inconclusive(f"schema: table {name} has no key")
        tables[name] = {"cols": cols, "key": key, "ddl": m.group(0)}
    return tables, text


# --------------------------------------------------------------------------------------------
# 2. SQL subset parser

TOK = re.compile(r"\s*(<>|!=|<=|>=|\?\d*|`[^`]+`|\"[^\"]+\"|'[^']*'|\w+|[(),=<>*])")


def tokenize(sql):
    out, i = [], 0
    while i < len(sql):
        m = TOK.match(sql, i)
        if not m:
            if sql[i:].strip() == "":
                break
            raise Inconclusive(f"SQL outside the supported subset at: {sql[i:i+30]!r}")
        out.append(m.group(1))
        i = m.end()
    return out


class P:
    def __init__(self, sql):
        self.t = tokenize(sql)
        self.i = 0
        self.auto = 0

    def peek(self, k=0):
        return self.t[self.i + k].upper() if self.i + k < len(self.t) else None

    def raw(self):
        return self.t[self.i] if self.i < len(self.t) else None

    def eat(self, *words):
        for w in words:
            if self.peek() != w.upper():
                raise Inconclusive(f"SQL outside the supported subset: expected {w} at token {self.i} ({self.t[self.i:self.i+4]})")
            self.i += 1

    def ident(self):
        x = self.t[self.i]
        self.i += 1
        return x.strip('`"')

    def param(self):
        x = self.t[self.i]
        assert x.startswith("?")
        self.i += 1
        if x == "?":
            self.auto += 1
            return self.auto
        n = int(x[1:])
        self.auto = max(self.auto, n)
        return n

    def atom(self):
        x = self.raw()
        if x.startswith("?"):
            return ("param", self.param())
        if x.startswith("'"):
            self.i += 1
            return ("str", x[1:-1])
        if re.match(r"\d+$", x):
            self.i += 1
            return ("int", int(x))
        return ("col", self.ident())

    def cmp(self):
        if self.peek() == "(":
            self.eat("(")
            e = self.cond()
            self.eat(")")
            return e
        a = self.atom()
        if a == ("col", "rowid") and self.peek() == "IN":
            self.eat("IN", "(")
            self.eat("SELECT")
            c = self.ident()
            if c != "rowid":
                raise Inconclusive("only `rowid IN (SELECT rowid ...)` is supported")
            self.eat("FROM")
            tbl = self.ident()
            self.eat("WHERE")
            inner = self.cond()
            order = None
            if self.peek() == "ORDER":
                self.eat("ORDER", "BY")
                order = self.ident()
            limit = None
            if self.peek() == "LIMIT":
                self.eat("LIMIT")
                limit = self.atom()
            self.eat(")")
            return ("in_select", tbl, inner, order, limit)
        op = self.raw()
        self.i += 1
        opu = op.upper()
        if opu == "IS":
            b = self.atom()
            return ("=", a, b)  # IS on non-null values is equality (columns are NOT NULL / invariant)
        if op not in ("=", "<>", "!=", "<", "<=", ">", ">="):
            raise Inconclusive(f"unsupported comparison operator {op}")
        b = self.atom()
        return ("!=" if op == "<>" else op, a, b)

    def cond(self):
        e = self.cmp()
        while self.peek() in ("AND", "OR"):
            op = self.peek()
            self.i += 1
            e = (op.lower(), e, self.cmp())
        return e


def parse_statement(sql):
    p = P(sql)
    k = p.peek()
    if k == "INSERT":
        p.eat("INSERT", "INTO")
        table = p.ident()
        p.eat("(")
        cols = [p.ident()]
        while p.peek() == ",":
            p.eat(",")
            cols.append(p.ident())
        p.eat(")")
        p.eat("VALUES", "(")
        vals = [p.atom()]
        while p.peek() == ",":
            p.eat(",")
            vals.append(p.atom())
        p.eat(")")
        st = {"kind": "upsert", "table": table, "cols": cols, "vals": vals, "set": [], "where": None, "returning": False, "on_conflict": False}
        if p.peek() == "ON":
            p.eat("ON", "CONFLICT", "DO", "UPDATE", "SET")
            st["on_conflict"] = True
            while True:
                c = p.ident()
                p.eat("=")
                st["set"].append((c, p.atom()))
                if p.peek() == ",":
                    p.eat(",")
                    continue
                break
            if p.peek() == "WHERE":
                p.eat("WHERE")
                st["where"] = p.cond()
        if p.peek() == "RETURNING":
            p.eat("RETURNING")
            p.ident()
            st["returning"] = True
    elif k == "DELETE":
        p.eat("DELETE", "FROM")
        st = {"kind": "delete", "table": p.ident(), "where": None}
        if p.peek() == "WHERE":
            p.eat("WHERE")
            st["where"] = p.cond()
    elif k == "UPDATE":
        p.eat("UPDATE")
        st = {"kind": "update", "table": p.ident(), "set": [], "where": None}
        p.eat("SET")
        while True:
            c = p.ident()
            p.eat("=")
            st["set"].append((c, p.atom()))
            if p.peek() == ",":
                p.eat(",")
                continue
            break
        if p.peek() == "WHERE":
            p.eat("WHERE")
            st["where"] = p.cond()
    else:
        raise Inconclusive(f"unsupported statement: {sql[:40]}")
    if p.i != len(p.t):
        raise Inconclusive(f"SQL outside the supported subset: trailing tokens {p.t[p.i:]} in {sql!r}")
    st["nparams"] = p.auto
    return st


# --------------------------------------------------------------------------------------------
# 3. encoding
#
# Value domain: integer columns/params are Int in [-2^63, 2^63-1]; text/blob values are coded as
# Int ids (only (in)equality is used on them; string literals get fixed negative ids).  Columns
# are non-NULL (NOT NULL in the schema, or by the store API's invariant - stated in the evidence).

I64_MIN, I64_MAX = -(2**63), 2**63 - 1


class Enc:
    def __init__(self, op, st, tables):
        self.op, self.st = op, st
        if st["table"] not in tables:
            raise Inconclusive(f"{op}: table {st['table']} not in schema")
        self.tbl = tables[st["table"]]
        self.cols = [c["name"] for c in self.tbl["cols"]]
        self.types = {c["name"]: c["type"] for c in self.tbl["cols"]}
        self.key = self.tbl["key"]
        self.strs = {}
        self.decls, self.asserts = [], []

    def strid(self, s):
        if s not in self.strs:
            self.strs[s] = -(len(self.strs) + 1000)
        return self.strs[s]

    def col_is_int(self, c):
        return self.types[c] == "integer"

    def decl(self, name, sort="Int"):
        self.decls.append(f"(declare-const {name} {sort})")

    def rng(self, name, is_int):
        if is_int:
            self.asserts.append(f"(and (>= {name} {smt_int(I64_MIN)}) (<= {name} {smt_int(I64_MAX)}))")
        else:
            self.asserts.append(f"(>= {name} 0)")  # ids of bound text/blob values; literals are negative

    def atom(self, a, row):
        k, v = a
        if k == "param":
            return f"p{v}"
        if k == "int":
            return smt_int(v)
        if k == "str":
            return smt_int(self.strid(v))
        if k == "col":
            if v == "rowid":
                return f"{row}_rowid"
            if v not in self.cols:
                raise Inconclusive(f"{self.op}: unknown column {v}")
            return f"{row}_{v}"
        raise Inconclusive(f"{self.op}: atom {a}")

    def cond(self, c, row):
        if c is None:
            return "true"
        op = c[0]
        if op in ("and", "or"):
            return f"({op} {self.cond(c[1], row)} {self.cond(c[2], row)})"
        if op == "in_select":
            # rowid IN (SELECT rowid FROM t WHERE inner ORDER BY .. LIMIT n): this row is selected
            # only if it satisfies `inner`; the LIMIT can only shrink the selection (over-approximated
            # by the free Boolean `lim_pick`), and selects nothing when n <= 0.
            _, tbl, inner, order, limit = c
            if tbl != self.st["table"]:
                raise Inconclusive(f"{self.op}: sub-select on a different table")
            if "lim_pick" not in " ".join(self.decls):
                self.decl("lim_pick", "Bool")
            lim = "true" if limit is None else f"(> {self.atom(limit, row)} 0)"
            return f"(and {self.cond(inner, row)} lim_pick {lim})"
        # sqlite compares values of different storage classes by class (INTEGER < TEXT < BLOB):
        # a parameter whose home column (VALUES / SET position) is text or blob, compared with an
        # integer column, is never equal to it and always greater.
        for x, y, flip in ((c[1], c[2], False), (c[2], c[1], True)):
            if x[0] == "col" and x[1] != "rowid" and self.col_is_int(x[1]) and y[0] == "param" and self.phome.get(y[1]) in ("text", "blob"):
                o = op if not flip else {"<": ">", "<=": ">=", ">": "<", ">=": "<=", "=": "=", "!=": "!="}[op]
                return {"<": "true", "<=": "true", ">": "false", ">=": "false", "=": "false", "!=": "true"}[o]
        a, b = self.atom(c[1], row), self.atom(c[2], row)
        if op == "=":
            return f"(= {a} {b})"
        if op == "!=":
            return f"(not (= {a} {b}))"
        return f"({op} {a} {b})"

    def build(self):
        st = self.st
        for i in range(1, st["nparams"] + 1):
            self.decl(f"p{i}")
        # home type of each parameter: the type of the column it is stored into (VALUES / SET)
        self.phome = {}
        for c, v in list(zip(st.get("cols", []), st.get("vals", []))) + list(st.get("set", [])):
            if v[0] == "param" and c in self.types:
                self.phome.setdefault(v[1], self.types[c])
        # which params are integers: those compared with / assigned to integer columns
        pint = set()

        def scan(c):
            if c is None:
                return
            if c[0] in ("and", "or"):
                scan(c[1]); scan(c[2]); return
            if c[0] == "in_select":
                scan(c[2])
                if c[4] and c[4][0] == "param":
                    pint.add(c[4][1])
                return
            for x, y in ((c[1], c[2]), (c[2], c[1])):
                if x[0] == "param" and y[0] == "col" and (y[1] == "rowid" or self.col_is_int(y[1])) and self.phome.get(x[1]) not in ("text", "blob"):
                    pint.add(x[1])
        scan(st.get("where"))
        for c, v in zip(st.get("cols", []), st.get("vals", [])):
            if v[0] == "param" and self.col_is_int(c):
                pint.add(v[1])
        for c, v in st.get("set", []):
            if v[0] == "param" and self.col_is_int(c):
                pint.add(v[1])
        self.pint = pint
        for i in range(1, st["nparams"] + 1):
            self.rng(f"p{i}", i in pint)
        # pre and post rows of the observed key slot
        self.decl("pre_exists", "Bool"); self.decl("post_exists", "Bool"); self.decl("changed", "Bool")
        for r in ("pre", "post"):
            self.decl(f"{r}_rowid")
            for c in self.cols:
                self.decl(f"{r}_{c}")
                if r == "pre":
                    self.rng(f"pre_{c}", self.col_is_int(c))
        keep = " ".join(f"(= post_{c} pre_{c})" for c in self.cols + ["rowid"])
        same = f"(and (= post_exists pre_exists) {keep})"
        if st["kind"] == "upsert":
            val = dict(zip(st["cols"], st["vals"]))
            for k in self.key:
                if k not in val:
                    raise Inconclusive(f"{self.op}: key column {k} not in VALUES")
            hit = "(and " + " ".join(f"(= pre_{k} {self.atom(val[k], 'pre')})" for k in self.key) + ")"
            self.hit = hit
            # slot addressed by the statement = the observed slot (pre_<key> are the slot's key values)
            ins = []
            for c in self.cols:
                if c in val:
                    ins.append(f"(= post_{c} {self.atom(val[c], 'pre')})")
                # other columns take their DEFAULT: unconstrained here
            ins_f = "(and post_exists changed " + " ".join(ins) + ")"
            if st["on_conflict"]:
                w = self.cond(st["where"], "pre")
                sets = dict(st["set"])
                upd = []
                for c in self.cols + ["rowid"]:
                    if c in sets:
                        upd.append(f"(= post_{c} {self.atom(sets[c], 'pre')})")
                    else:
                        upd.append(f"(= post_{c} pre_{c})")
                upd_f = "(and post_exists changed " + " ".join(upd) + ")"
                conflict = f"(ite {w} {upd_f} (and {same} (not changed)))"
            else:
                conflict = "false"  # plain INSERT on an existing key is a constraint error
            # `changed` is the statement's own result (change_count() > 0 / RETURNING yields a row):
            # it is only determined by the observed slot when the statement addresses that slot.
            self.asserts.append(f"(ite {hit} (ite pre_exists {conflict} {ins_f}) {same})")
        elif st["kind"] == "delete":
            w = self.cond(st["where"], "pre")
            self.asserts.append(f"(ite (and pre_exists {w}) (and (not post_exists) changed) {same})")
        elif st["kind"] == "update":
            w = self.cond(st["where"], "pre")
            sets = dict(st["set"])
            upd = " ".join((f"(= post_{c} {self.atom(sets[c], 'pre')})" if c in sets else f"(= post_{c} pre_{c})") for c in self.cols + ["rowid"])
            self.asserts.append(f"(ite (and pre_exists {w}) (and post_exists changed {upd}) {same})")
        return self

    def smt(self, goal):
        lines = ["(set-logic ALL)", "(set-option :produce-models true)"] + self.decls
        lines += [f"(assert {a})" for a in self.asserts]
        lines.append(f"(assert (not {goal}))")
        lines.append("(check-sat)")
        return "\n".join(lines) + "\n"

    def names(self):
        return [d.split()[1] for d in self.decls]


def smt_int(v):
    return str(v) if v >= 0 else f"(- {-v})"


# --------------------------------------------------------------------------------------------
# 4. model properties (the "simple models" of C24), one or more goals per operation.
#    Written over pre_*/post_*/p<i>/changed; `K` = "the statement addresses the observed slot".

def goals(op, e):
    st = e.st
    val = dict(zip(st.get("cols", []), st.get("vals", [])))

    def P(col):  # SMT name of the parameter bound to a column in VALUES
        return e.atom(val[col], "pre")

    K = getattr(e, "hit", "true")
    G = []
    if op == "routing.add_inventory":
        ts = P("timestamp")
        G += [
            ("entry is never removed", "(=> pre_exists post_exists)"),
            ("timestamp never decreases", "(=> (and pre_exists post_exists) (>= post_timestamp pre_timestamp))"),
            ("timestamp becomes max(old, new) on the addressed entry", f"(=> (and {K} pre_exists) (= post_timestamp (ite (> {ts} pre_timestamp) {ts} pre_timestamp)))"),
            ("new entry carries the given timestamp", f"(=> (and {K} (not pre_exists)) (and post_exists (= post_timestamp {ts})))"),
            ("other entries untouched", f"(=> (not {K}) (and (= post_exists pre_exists) (= post_timestamp pre_timestamp)))"),
            ("change is reported iff inserted or refreshed", f"(=> {K} (= changed (or (not pre_exists) (> {ts} pre_timestamp))))"),
        ]
    elif op == "routing.remove_inventory":
        G += [("removes exactly the addressed entry", "(= post_exists (and pre_exists (not (and (= pre_repo p1) (= pre_node p2)))))")]
    elif op == "routing.prune":
        G += [
            ("pruning never removes the ignored (local) node's entries", "(=> (and pre_exists (= pre_node p1)) post_exists)"),
            ("only entries older than the cutoff are pruned", "(=> (and pre_exists (not post_exists)) (< pre_timestamp p2))"),
            ("pruning never creates or alters entries", "(and (=> post_exists pre_exists) (=> post_exists (= post_timestamp pre_timestamp)))"),
        ]
    elif op in ("seed.synced", "refs.set"):
        vcol = "head" if op == "seed.synced" else "oid"
        v, ts = P(vcol), P("timestamp")
        newer = f"(and (> {ts} pre_timestamp) (not (= {v} pre_{vcol})))"
        G += [
            ("an existing entry changes only for a strictly newer timestamp with a different value", f"(=> (and pre_exists (or (not (= post_{vcol} pre_{vcol})) (not (= post_timestamp pre_timestamp)))) (and {K} {newer}))"),
            ("a strictly newer, different value is stored", f"(=> (and {K} pre_exists {newer}) (and post_exists (= post_{vcol} {v}) (= post_timestamp {ts})))"),
            ("a missing entry is created with the given value", f"(=> (and {K} (not pre_exists)) (and post_exists (= post_{vcol} {v}) (= post_timestamp {ts})))"),
            ("entry is never removed and the timestamp never decreases", "(=> pre_exists (and post_exists (>= post_timestamp pre_timestamp)))"),
            ("change is reported iff something was written", f"(=> {K} (= changed (or (not pre_exists) {newer})))"),
        ]
    elif op == "refs.delete":
        G += [("removes exactly the addressed entry", "(= post_exists (and pre_exists (not (and (= pre_repo p1) (= pre_namespace p2) (= pre_ref p3)))))")]
    elif op in ("policy.follow", "policy.seed", "policy.set_follow_policy", "policy.set_seed_policy"):
        col = [c for c in st["cols"] if c != "id"][0]
        v = P(col)
        others = [c for c in e.cols if c not in ("id", col)]
        keep = " ".join(f"(= post_{c} pre_{c})" for c in others) or "true"
        G += [
            ("the store reflects the last write", f"(=> {K} (and post_exists (= post_{col} {v})))"),
            ("other columns of an existing entry are untouched", f"(=> pre_exists (and post_exists {keep}))"),
            ("other entries untouched", f"(=> (not {K}) (and (= post_exists pre_exists) (= post_{col} pre_{col})))"),
            ("change is reported iff the stored value changed", f"(=> {K} (= changed (or (not pre_exists) (not (= pre_{col} {v})))))"),
        ]
    elif op in ("policy.unfollow", "policy.unseed"):
        G += [("removes exactly the addressed entry", "(= post_exists (and pre_exists (not (= pre_id p1))))"),
              ("removal is reported", "(=> (and pre_exists (= pre_id p1)) changed)")]
    elif op in ("policy.unblock_rid", "policy.unblock_nid"):
        blk = smt_int(e.strid("block"))
        G += [("unblock removes exactly the addressed entry and only when its policy is 'block'", f"(= post_exists (and pre_exists (not (and (= pre_id p1) (= pre_policy {blk})))))"),
              ("an entry that is kept is unchanged", "(=> post_exists (and (= post_policy pre_policy) (= post_id pre_id)))")]
    elif op == "routing.remove_inventories":
        G += [("removes exactly the addressed entry", "(= post_exists (and pre_exists (not (and (= pre_repo p1) (= pre_node p2)))))")]
    elif op == "gossip.announced":
        ts, msg, sig = P("timestamp"), P("message"), P("signature")
        newer = f"(> {ts} pre_timestamp)"
        G += [
            ("a stored announcement is replaced only by a strictly newer one of the same kind", f"(=> (and pre_exists (or (not (= post_message pre_message)) (not (= post_signature pre_signature)) (not (= post_timestamp pre_timestamp)))) (and {K} {newer}))"),
            ("a strictly newer announcement of the same kind replaces the stored one", f"(=> (and {K} pre_exists {newer}) (and post_exists (= post_message {msg}) (= post_signature {sig}) (= post_timestamp {ts})))"),
            ("a first announcement is stored", f"(=> (and {K} (not pre_exists)) (and post_exists (= post_message {msg}) (= post_timestamp {ts})))"),
            ("a row id is returned exactly when something was written (freshness test of C10)", f"(=> {K} (= changed (or (not pre_exists) {newer})))"),
            ("never removed", "(=> pre_exists post_exists)"),
        ]
    elif op == "gossip.prune":
        G += [("only announcements older than the cutoff are pruned", "(= post_exists (and pre_exists (not (< pre_timestamp p1))))")]
    else:
        raise Inconclusive(f"no model property for {op}")
    return G


# --------------------------------------------------------------------------------------------
# 5. solvers

def run_solver(cmd, text, timeout):
    t0 = time.time()
    try:
        p = subprocess.run(cmd, input=text, capture_output=True, text=True, timeout=timeout)
    except subprocess.TimeoutExpired:
        return "timeout", "", time.time() - t0
    out = p.stdout + p.stderr
    if "(error" in out or "error" in p.stderr.lower():
        return "error", out, time.time() - t0
    first = out.strip().splitlines()[0] if out.strip() else ""
    return (first if first in ("sat", "unsat", "unknown") else "error"), out, time.time() - t0


def get_model(e, goal, timeout):
    text = e.smt(goal) + "(get-value (" + " ".join(e.names()) + "))\n"
    v, out, _ = run_solver(["/usr/bin/z3", "-in"], text, timeout)
    if v != "sat":
        return None
    model = {}
    for m in re.finditer(r"\((\w+) ((?:\(- \d+\))|\d+|true|false)\)", out):
        val = m.group(2)
        if val in ("true", "false"):
            model[m.group(1)] = val == "true"
        elif val.startswith("(-"):
            model[m.group(1)] = -int(val[3:-1])
        else:
            model[m.group(1)] = int(val)
    return model


# --------------------------------------------------------------------------------------------
# 6. real sqlite: replay of models and validation of the encoding

def sqlite_value(e, col, v):
    """Map a model value to a concrete sqlite value of the column's type."""
    if e.col_is_int(col):
        return int(v)
    inv = {i: s for s, i in e.strs.items()}
    if v in inv:
        return inv[v]
    return f"v{v}".encode() if e.types[col] == "blob" else f"v{v}"


def sqlite_run(e, schema_text, sql, pre, params):
    """Execute the real statement text on a real sqlite with the real schema.  `pre`: None or dict
    col -> model value (key columns included); params: list of model values.  Returns
    (post_row_or_None as dict col->sqlite value, changed)."""
    db = sqlite3.connect(":memory:")
    db.executescript("pragma foreign_keys = off;\n" + schema_text)
    t = e.st["table"]
    if pre is not None:
        cols = list(pre.keys())
        db.execute(f'INSERT INTO "{t}" ({",".join(chr(34)+c+chr(34) for c in cols)}) VALUES ({",".join("?"*len(cols))})', [sqlite_value(e, c, pre[c]) for c in cols])
        db.commit()
    # parameter values: typed like the column they are compared with / stored in
    ptype = {}
    st = e.st
    for c, v in list(zip(st.get("cols", []), st.get("vals", []))) + st.get("set", []):
        if v[0] == "param":
            ptype.setdefault(v[1], c)

    def scan(c):
        if c is None:
            return
        if c[0] in ("and", "or"):
            scan(c[1]); scan(c[2]); return
        if c[0] == "in_select":
            scan(c[2]); return
        for x, y in ((c[1], c[2]), (c[2], c[1])):
            if x[0] == "param" and y[0] == "col" and y[1] != "rowid":
                ptype.setdefault(x[1], y[1])
    scan(st.get("where"))
    args = []
    for i, v in enumerate(params, 1):
        if i in e.pint and i not in ptype:
            args.append(int(v))
        elif i in ptype:
            args.append(sqlite_value(e, ptype[i], v))
        else:
            args.append(int(v))
    before = db.total_changes
    cur = db.execute(sql, args)
    returned = cur.fetchall() if cur.description else None
    db.commit()
    changed = db.total_changes - before > 0
    if returned is not None:
        changed = len(returned) > 0
    # read back the observed slot (the pre row's key, or the statement's key if there was no pre row)
    if pre is not None:
        keyvals = [sqlite_value(e, k, pre[k]) for k in e.key]
    else:
        keyvals = None
    row = None
    if keyvals is not None:
        q = f'SELECT {",".join(chr(34)+c+chr(34) for c in e.cols)} FROM "{t}" WHERE ' + " AND ".join(f'"{k}" = ?' for k in e.key)
        r = db.execute(q, keyvals).fetchone()
        row = dict(zip(e.cols, r)) if r else None
    else:
        r = db.execute(f'SELECT {",".join(chr(34)+c+chr(34) for c in e.cols)} FROM "{t}"').fetchall()
        row = dict(zip(e.cols, r[0])) if r else None
    return row, changed


def eval_goal_on_sqlite(e, goal, model, schema_text, sql):
    """Replay: run the real statement on real sqlite from the model's pre-state and parameters and
    evaluate the goal on the observed post-state.  Returns (goal_holds, details)."""
    pre = {c: model[f"pre_{c}"] for c in e.cols} if model.get("pre_exists") else None
    params = [model[f"p{i}"] for i in range(1, e.st["nparams"] + 1)]
    # when there is no pre row the observed slot is "the key in pre_<key>" (still meaningful for K)
    row, changed = sqlite_run(e, schema_text, sql, pre, params)
    if pre is None:
        # observed slot = key values pre_<k>; the row we read back is the only row (if any): it is the
        # observed slot's row only if its key equals the slot key
        if row is not None and any(row[k] != sqlite_value(e, k, model[f"pre_{k}"]) for k in e.key):
            row = None
    # build concrete assignment for the goal: post values decoded back to model ints
    def back(c, v):
        if e.col_is_int(c):
            return int(v)
        if isinstance(v, bytes):
            v = v.decode()
        if v in e.strs:
            return e.strs[v]
        if isinstance(v, str) and v.startswith("v") and v[1:].lstrip("-").isdigit():
            return int(v[1:])
        return 10**9  # a default / foreign value: distinct from every id in the model
    asg = {k: v for k, v in model.items() if k.startswith("pre_") or re.match(r"p\d+$", k) or k == "lim_pick"}
    asg["post_exists"] = row is not None
    asg["changed"] = changed
    for c in e.cols:
        asg[f"post_{c}"] = back(c, row[c]) if row is not None else model.get(f"pre_{c}", 0)
    asg["post_rowid"] = model.get("pre_rowid", 0)
    asg["pre_rowid"] = model.get("pre_rowid", 0)
    import z3
    decls = "\n".join(e.decls)
    fixed = "\n".join(f"(assert (= {k} {('true' if v else 'false') if isinstance(v, bool) else smt_int(v)}))" for k, v in asg.items() if k in e.names())
    s = z3.Solver()
    s.from_string(f"{decls}\n{fixed}\n(assert {goal})")
    holds = s.check() == z3.sat
    return holds, {"pre": pre, "params": params, "post_row": row, "changed": changed}


def validate_encoding(e, schema_text, sql, logf):
    """Translation validation: on boundary vectors the encoding's post-state must equal real sqlite's."""
    import z3
    n = 0
    st = e.st
    keyn = len(e.key)
    # candidate values: small ids / timestamps around each other
    vals = [1, 2]
    tsv = [5, 6, 7]
    nonkey = [c for c in e.cols if c not in e.key]
    vectors = []
    for exists in (False, True):
        for keymatch in (True, False):
            for tpre in tsv[1:2]:
                for tnew in tsv:
                    for vpre, vnew in ((1, 1), (1, 2)):
                        vectors.append((exists, keymatch, tpre, tnew, vpre, vnew))
    mism = []
    for exists, keymatch, tpre, tnew, vpre, vnew in vectors:
        pre = {}
        for k in e.key:
            pre[k] = 11
        for c in nonkey:
            pre[c] = tpre if e.col_is_int(c) else vpre
        params = []
        # assign params by role: key params match or not; integer params get tnew; others vnew
        val = dict(zip(st.get("cols", []), st.get("vals", [])))
        role = {}
        for c, v in val.items():
            if v[0] == "param":
                role[v[1]] = c

        def scan(c):
            if c is None:
                return
            if c[0] in ("and", "or"):
                scan(c[1]); scan(c[2]); return
            if c[0] == "in_select":
                scan(c[2]); return
            for x, y in ((c[1], c[2]), (c[2], c[1])):
                if x[0] == "param" and y[0] == "col":
                    role.setdefault(x[1], y[1])
        scan(st.get("where"))
        for i in range(1, st["nparams"] + 1):
            c = role.get(i)
            if c in e.key:
                params.append(11 if keymatch else 12)
            elif i in e.pint:
                params.append(tnew if c != "rowid" else 1)
            else:
                params.append(vnew)
        for pick in ((True, False) if "lim_pick" in " ".join(e.decls) else (True,)):
            row, changed = sqlite_run(e, schema_text, sql, pre if exists else None, params)
            if not exists and row is not None and any(row[k] != sqlite_value(e, k, 11) for k in e.key):
                row = None
            if not pick:
                continue  # the LIMIT over-approximation is not comparable pointwise
            # encoding's prediction
            s = z3.Solver()
            fixed = [f"(assert (= pre_exists {'true' if exists else 'false'}))"]
            for c in e.cols:
                fixed.append(f"(assert (= pre_{c} {smt_int(pre[c])}))")
            for i, v in enumerate(params, 1):
                fixed.append(f"(assert (= p{i} {smt_int(v)}))")
            if "lim_pick" in " ".join(e.decls):
                fixed.append("(assert lim_pick)")
            s.from_string("\n".join(e.decls) + "\n" + "\n".join(f"(assert {a})" for a in e.asserts) + "\n" + "\n".join(fixed))
            if s.check() != z3.sat:
                mism.append(("encoding has no successor state", exists, keymatch, tnew, vnew))
                continue
            m = s.model()
            def mv(name):
                v = m.eval(z3.Int(name) if name not in ("post_exists", "changed") else z3.Bool(name), model_completion=True)
                return z3.is_true(v) if name in ("post_exists", "changed") else v.as_long()
            enc_exists, enc_changed = mv("post_exists"), mv("changed")
            ok = enc_exists == (row is not None) and (enc_changed == changed or not keymatch or (st["kind"] != "upsert" and not (exists and row is None)))
            if ok and row is not None:
                cols_written = set(st.get("cols", [])) | {c for c, _ in st.get("set", [])}
                for c in e.cols:
                    if not exists and c not in cols_written:
                        continue  # DEFAULT values are unconstrained in the encoding
                    want = row[c]
                    got = mv(f"post_{c}")
                    if sqlite_value(e, c, got) != want:
                        ok = False
            n += 1
            if not ok:
                mism.append({"exists": exists, "keymatch": keymatch, "tnew": tnew, "vnew": vnew, "sqlite_row": row, "sqlite_changed": changed, "enc_exists": enc_exists, "enc_changed": enc_changed})
    return n, mism


# --------------------------------------------------------------------------------------------
# 7. driver

def load_known():
    known = []
    p = os.path.join(VERIF, "known_findings.txt")
    if os.path.exists(p):
        for line in open(p):
            m = re.match(r"known: property=(\S+) harness=(\S+) check=\"([^\"]*)\" site=(\S+) :: (.*)", line.strip())
            if m:
                known.append({"property": m.group(1), "harness": m.group(2), "check": m.group(3), "site": m.group(4), "what": m.group(5)})
    return known


def run(pid, tier, seed, logdir, evidence_path):
    t0 = time.time()
    os.makedirs(logdir, exist_ok=True)
    inconclusive, violations, samples, known_hits = [], [], [], []
    queries = solver_s = validated = 0
    timeout = 60 if tier == "quick" else 600
    try:
        stmts = extract_statements()
        tables, schema_text = parse_schema()
    except Inconclusive as ex:
        stmts, tables, schema_text = {}, {}, ""
        inconclusive.append({"harness": "extract", "reason": str(ex)})
    known = load_known()
    for op, info in stmts.items():
        try:
            e = Enc(op, parse_statement(info["sql"]), tables).build()
            gs = goals(op, e)
            nval, mism = validate_encoding(e, schema_text, info["sql"], None)
            validated += nval
            if mism:
                inconclusive.append({"harness": op, "reason": f"encoding disagrees with real sqlite on {len(mism)} validation vector(s): {mism[:2]}"})
                continue
        except Inconclusive as ex:
            inconclusive.append({"harness": op, "reason": str(ex)})
            continue
        for gi, (title, goal) in enumerate(gs):
            text = e.smt(goal)
            qf = os.path.join(logdir, f"{op}.{gi}.smt2")
            open(qf, "w").write(text)
            v1, o1, s1 = run_solver(["/usr/bin/z3", "-in"], text, timeout)
            v2, o2, s2 = run_solver(["cvc5", "--lang", "smt2"], text, timeout)
            queries += 2
            solver_s += s1 + s2
            rec = {"operation": op, "source": f"{info['file']}::{info['fn']}", "sql": info["sql"], "goal": title, "z3": v1, "cvc5": v2, "seconds": round(s1 + s2, 3)}
            if len(samples) < 60:
                samples.append(rec)
            if v1 == "unsat" and v2 == "unsat":
                continue
            if v1 == "sat" and v2 == "sat":
                model = get_model(e, goal, timeout)
                if model is None:
                    inconclusive.append({"harness": op, "reason": f"sat but no model for goal {title!r}"})
                    continue
                holds, det = eval_goal_on_sqlite(e, goal, model, schema_text, info["sql"])
                if holds:
                    inconclusive.append({"harness": op, "reason": f"counterexample for {title!r} does not reproduce on real sqlite ({det}); encoding suspect"})
                    continue
                k = next((k for k in known if k["property"] == pid and k["harness"] == op and k["check"] in title), None)
                if k:
                    known_hits.append(k)
                    continue
                rp = os.path.join(VERIF, "replays", pid, f"{op}.{gi}.json")
                os.makedirs(os.path.dirname(rp), exist_ok=True)
                json.dump({"property": pid, "operation": op, "goal_title": title, "goal": goal, "sql": info["sql"], "source": rec["source"], "model": model, "observed": det}, open(rp, "w"), indent=1, default=str)
                violations.append({"harness": op, "goal": title, "replay": rp, "observed": det})
            else:
                inconclusive.append({"harness": op, "reason": f"solvers disagree or failed on {title!r}: z3={v1} cvc5={v2} ({qf})"})
    ev = {
        "property_id": pid, "tier": tier, "seed": seed, "level": "model_checking",
        "coverage": {
            "evaluations": queries,
            "distinct_nontrivial": len({(s["operation"], s["goal"]) for s in samples if s["z3"] == "unsat" and s["cvc5"] == "unsat"}),
            "rule": "evaluations = SMT queries discharged (each model property of each store operation, asked of z3 4.8.12 and of cvc5 1.0); distinct_nontrivial = distinct (operation, property) pairs decided unsat by both solvers over an arbitrary pre-state row and arbitrary 64-bit parameters",
            "samples": samples,
            "queries_discharged": queries,
            "solver": "z3 4.8.12 (/usr/bin/z3 -in) and cvc5 1.0 (--lang smt2), verdicts diffed; logic ALL, mathematical integers constrained to the i64 range",
            "solver_seconds": round(solver_s, 2),
            "functions_encoded": [f"{i['file']}::{i['fn']}" for i in stmts.values()],
            "statements_encoded": {op: i["sql"] for op, i in stmts.items()},
            "bounds": "one arbitrary key slot per table (one-step induction: every statement addresses one key, prune/delete act row-wise); all column and parameter values arbitrary in the i64 range; text/blob values as ids (only equality is used on them)",
            "translation_validation_vectors": validated,
            "outside_claim": ["the Rust glue around the statements (parameter binding order, the `existed` pre-select of add_inventory, result mapping)", "sqlite's own semantics for the subset is the trusted base (cross-checked on the validation vectors and on every solver model)", "NULL column values (columns are NOT NULL or never written as NULL by the store API)", "statements not listed (reads, relays(), address and node tables)"],
            "inconclusive": inconclusive,
            "known_findings_hit": [k["what"] for k in known_hits],
            "violations_reported": violations,
            "exhaustive": False,
        },
        "assumptions": ["sqlite UPSERT/DELETE/UPDATE semantics as encoded (validated against real sqlite 3.40 on boundary vectors each run)", "columns hold non-NULL values"],
        "wall_s": round(time.time() - t0, 2),
        "violations": len(violations),
    }
    json.dump(ev, open(evidence_path, "w"), indent=1, default=str)
    for k in known_hits:
        print(f"KNOWN-FINDING: property={pid} {k['what']}")
    for v in violations:
        print(f"VIOLATION property={pid} replay={v['replay']}")
        print(f"  {v['harness']}: {v['goal']}: {v['observed']}")
    if violations:
        return 1
    if inconclusive:
        for i in inconclusive:
            print(f"[{pid}] INCONCLUSIVE {i['harness']}: {i['reason']}", file=sys.stderr)
        return 2
    print(f"[{pid}] held: {queries} SMT queries over {len(stmts)} statements, all unsat on z3 and cvc5; {validated} validation vectors agree with real sqlite; {time.time()-t0:.1f}s", file=sys.stderr)
    return 0


def replay(path):
    r = json.load(open(path))
    stmts = extract_statements()
    tables, schema_text = parse_schema()
    op = r["operation"]
    e = Enc(op, parse_statement(stmts[op]["sql"]), tables).build()
    goals(op, e)
    holds, det = eval_goal_on_sqlite(e, r["goal"], r["model"], schema_text, stmts[op]["sql"])
    print(json.dumps(det, default=str))
    if not holds:
        print(f"VIOLATION property={r['property']} replay={path}")
        return 1
    return 0


if __name__ == "__main__":
    ap = argparse.ArgumentParser()
    ap.add_argument("pid", nargs="?")
    ap.add_argument("--tier", default="quick")
    ap.add_argument("--seed", type=int, default=0)
    ap.add_argument("--logdir", default="/verif/.cache/logs/C24/quick")
    ap.add_argument("--evidence", default="/verif/evidence/C24.json")
    ap.add_argument("--replay")
    a = ap.parse_args()
    if a.replay:
        sys.exit(replay(a.replay))
    sys.exit(run(a.pid, a.tier, a.seed, a.logdir, a.evidence))
