#!/usr/bin/env python3
"""Generate /verif/MANIFEST.json from harness/registry.py and harness/claims.py."""
import json, os, sys
V = os.path.dirname(os.path.dirname(os.path.abspath(__file__)))
sys.path.insert(0, os.path.join(V, "harness"))
import registry, claims

props = [json.loads(l) for l in open(os.path.join(V, "properties.jsonl"))]
checks, na = [], []
for p in props:
    pid = p["id"]
    if pid in registry.PROPERTIES and pid in claims.CLAIMS:
        c = claims.CLAIMS[pid]
        checks.append({
            "property_id": pid,
            "quick_cmd": f"bin/verif {pid} --tier quick",
            "thorough_cmd": f"bin/verif {pid} --tier thorough",
            "evidence_file": f"/verif/evidence/{pid}.json",
            "replay_cmd_template": "bin/verif --replay {path}",
            "engine": c.get("engine", "kani-cbmc"),
            "level_claimed": {"category": "model_checking", "text": c["text"], "design_ref": c.get("design_ref", "DESIGN.md §4 " + pid)},
            "level_note": c["note"],
            "technique": c["technique"],
        })
    else:
        na.append({"property_id": pid, "reason": claims.NOT_APPLICABLE.get(pid) or claims.PENDING[pid]})
m = {
    "version": 1,
    "setup_cmd": "bin/verif setup",
    "hooks": {
        "guard": "cfg(kani)",
        "enable": "cargo kani (the Kani compiler sets cfg(kani); hook lines are `#[cfg(kani)] #[path = \"/verif/harness/incrate/<file>.rs\"] mod verif_kani;`)",
        "baseline_off_cmd": "cd /repo && cargo test --workspace --no-fail-fast --offline",
        "source_commits": claims.HOOK_COMMITS,
        "add_only": True,
    },
    "engines": claims.ENGINES,
    "checks": checks,
    "not_applicable": na,
    "notes": claims.NOTES,
}
json.dump(m, open(os.path.join(V, "MANIFEST.json"), "w"), indent=1)
print(f"{len(checks)} checks, {len(na)} not applicable")
