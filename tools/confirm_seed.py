#!/usr/bin/env python3
"""Confirm a seeded change delivered by a sub-agent, in its scratch worktree.
usage: confirm_seed.py <worktree> <tag> -- <cargo test package args for the regression run>
Steps: reset worktree; apply patch.diff only -> existing tests of the given packages pass;
apply demo.diff -> demo command fails; revert patch -> demo command passes.
On success copies SEED/{patch.diff,demo.diff,meta.json} to /verif/seeded/<tag>/ and adds "confirmed" to meta."""
import json, os, subprocess, sys, shutil, re
wt, tag = sys.argv[1], sys.argv[2]
pk = sys.argv[sys.argv.index('--')+1:]
seed = os.path.join(wt, 'SEED')
meta = json.load(open(os.path.join(seed, 'meta.json')))
env = dict(os.environ, CARGO_TARGET_DIR=os.path.join(wt, 'target'), CARGO_NET_OFFLINE='true')
def sh(cmd, **kw):
    print('+', cmd, flush=True)
    return subprocess.run(cmd, shell=True, cwd=wt, env=env, **kw)
def reset():
    sh('git reset -q --hard HEAD && git clean -fdq -e SEED -e target')
reset()
assert sh('git apply SEED/patch.diff').returncode == 0, 'patch does not apply'
r = sh('cargo test --offline -j 8 --no-fail-fast ' + ' '.join(pk) + ' -- --test-threads 4 2>&1 | tee SEED/confirm_regression.log | grep -E "^test result|FAILED|failed" | head -40')
log = open(os.path.join(seed, 'confirm_regression.log')).read()
failed = re.findall(r'^test (\S+) \.\.\. FAILED', log, re.M)
print('regression failures with patch:', failed)
demo_cmd = meta['demo_cmd'].replace('git apply SEED/demo.diff && ', '')
have_demo_diff = os.path.exists(os.path.join(seed, 'demo.diff'))
if have_demo_diff:
    assert sh('git apply SEED/demo.diff').returncode == 0, 'demo does not apply'
r1 = sh(demo_cmd + ' > SEED/confirm_demo_patched.log 2>&1')
print('demo with patch rc =', r1.returncode)
sh('git apply -R SEED/patch.diff')
r2 = sh(demo_cmd + ' > SEED/confirm_demo_clean.log 2>&1')
print('demo without patch rc =', r2.returncode)
ok = (not failed) and r1.returncode != 0 and r2.returncode == 0
print('CONFIRMED' if ok else 'NOT CONFIRMED')
if ok or os.environ.get('FORCE'):
    dst = f'/verif/seeded/{tag}'
    os.makedirs(dst, exist_ok=True)
    for f in ['patch.diff', 'demo.diff', 'demo.rs', 'demo.sh']:
        if os.path.exists(os.path.join(seed, f)): shutil.copy(os.path.join(seed, f), dst)
    meta['confirmed_by_me'] = {'regression_cmd': 'cargo test --offline --no-fail-fast ' + ' '.join(pk), 'regression_failures_with_patch': failed,
        'demo_rc_with_patch': r1.returncode, 'demo_rc_without_patch': r2.returncode}
    meta['demo_cmd'] = meta['demo_cmd'].replace(wt, '<worktree>')
    json.dump(meta, open(os.path.join(dst, 'meta.json'), 'w'), indent=1)
reset()
