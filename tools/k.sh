#!/bin/bash
# usage: k.sh <engine-dir> <pkg|-> <target-name> <timeout> harness...   (runs harnesses in parallel, prints a summary)
dir=$1; pkg=$2; tgt=$3; to=$4; shift 4
cd $dir; ulimit -v 25000000
parg=""; [ "$pkg" != "-" ] && parg="-p $pkg"
for h in "$@"; do
 ( timeout $to env CARGO_NET_OFFLINE=true cargo kani $parg --target-dir /verif/.cache/kani/$tgt -Z stubbing $KARGS --harness $h $( [[ "$h" == *::* ]] && echo --exact ) $KTAIL > /tmp/k_${h##*::}.log 2>&1; rc=$?
   echo "== $h rc=$rc $(grep -h 'Verification Time' /tmp/k_${h##*::}.log) $(grep -h 'VERIFICATION' /tmp/k_${h##*::}.log) $(grep -h 'Runtime Symex' /tmp/k_${h##*::}.log | head -1) $(grep -h 'cover properties' /tmp/k_${h##*::}.log)"
   grep -h "^error\|Solver ran out" /tmp/k_${h##*::}.log | head -5
   grep -h -A2 "Failed Checks" /tmp/k_${h##*::}.log | cut -c1-220 | head -12 ) &
done; wait
