#!/usr/bin/env python3
"""Print the prompt given to an independent sub-agent that seeds a property-breaking change.
Usage: seed_prompt.py <property id> <worktree dir> [variant-hint]"""
import json, sys
pid, wt = sys.argv[1], sys.argv[2]
hint = sys.argv[3] if len(sys.argv) > 3 else ""
p = next(json.loads(l) for l in open('/verif/properties.jsonl') if json.loads(l)['id'] == pid)
print(f"""You are helping evaluate verification tooling for the Rust project radicle-dev/heartwood (Radicle Heartwood: peer-to-peer code collaboration stack).
You have your own scratch git worktree of the repository at {wt} (detached HEAD). Work ONLY inside {wt}. Do NOT read or touch /repo, /verif, /scratch or any other /tmp/wt/* directory.

Here is a semantic property that the code base is supposed to satisfy:

  id: {p['id']}
  title: {p['title']}
  statement: {p['statement']}
  quantifier: {p['quantifier']['text']}
  anchor files: {', '.join(p['anchors']['files'])}
  mechanisms: {'; '.join(m['name'] + ' @ ' + m['where'] for m in p['anchors']['mechanism'])}

Your task: write a realistic change (a bug a developer could plausibly introduce in a refactor, optimisation or feature tweak) to the NON-TEST source code of heartwood that BREAKS this property while
  (a) the workspace still compiles, and
  (b) the existing test suite still passes unedited: run at least the tests of every crate you touched plus its dependents, e.g.
      cd {wt} && CARGO_TARGET_DIR={wt}/target cargo test --offline -j 6 -p <crate> [-p <dependent crate> ...]
      (network is unavailable; always pass --offline; use -j 6 to share the machine). Before finishing, run the whole suite once:
      cd {wt} && CARGO_TARGET_DIR={wt}/target cargo test --workspace --no-fail-fast --offline -j 6    and confirm nothing fails that passed before your change (if some test fails also WITHOUT your change, say so).
  (c) The breakage must need something SPECIFIC to manifest: an unusual or boundary input, a particular multi-step sequence of operations, a particular interleaving or clock behaviour, or two cooperating sites that each look fine alone. It must NOT be something ordinary use would expose at once, and must not be a trivially obvious sabotage (no `if x == 0xdeadbeef` magic constants, no deleting a whole check in a way any reviewer would spot instantly).
  {hint}

Deliverables, written into the directory {wt}/SEED/ (create it):
  1. patch.diff  - `git diff` of your source change (source files only, NOT the demonstration), applying cleanly with `git apply` to the original HEAD.
  2. demo.rs (or demo.sh + files) - a demonstration: a Rust test (give the exact file/module where it must be pasted, or better: make it a new file under an existing crate's `tests/` dir or an `#[cfg(test)] mod` appended to a source file, delivered as a second diff `demo.diff`) that FAILS with your change applied and PASSES without it. State the exact command to run it.
  3. meta.json - {{"property": "{p['id']}", "summary": "...what the change does...", "needs_to_manifest": "...the specific input/sequence/schedule...", "files_changed": [...], "demo_cmd": "...", "tests_run": "...commands you ran and their pass/fail counts..."}}

Verify your deliverables yourself: with only patch.diff applied the existing tests pass; with patch.diff + demo applied the demo fails; with only the demo applied (no patch) the demo passes. Leave the worktree with both diffs applied at the end. Keep the change small (ideally < 20 changed lines). In your final reply, summarise the change, what it needs to manifest, and the verification you did.""")
